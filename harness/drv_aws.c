#define _DEFAULT_SOURCE 1
/* Driver for aws/aws_sign.c: same case lines as model/aws_main.ml.  time() is interposed
 * (--wrap=time): the k-th call within one case returns t + k, so code that samples the clock
 * twice produces a date and a datetime from different seconds. */
#include <time.h>
#include "drv_common.h"
#include "aws_sign.h"

/* an absent body (NULL) is passed with a non-zero bodylen: the documented request has no body
 * then, so the length must be ignored (a function that hashed bodylen bytes would fault) */
#define DRV_NULL_BODYLEN 7

static time_t drv_t0;
static int drv_tcalls;

time_t __wrap_time(time_t * p)
{
	time_t t = drv_t0 + drv_tcalls++;
	if (p) *p = t;
	return t;
}

/* allocation failure injection (C14): the k-th allocation made by library code is refused.
 * asprintf.c's malloc and aws_sign.c's strdup are call sites inside the objects we link, so
 * --wrap=malloc,strdup intercepts exactly the library's own allocations. */
void * __real_malloc(size_t);
char * __real_strdup(const char *);
static long drv_failk;	/* 0 = never fail */
static long drv_nalloc;
static int drv_inlib;

/* A second request being signed at the same time.  aws_sign.h keeps nothing between calls (all
 * of a request's state is in its arguments and results), so two requests may be under way at
 * once - two threads each signing their own.  The single-threaded equivalent: inside the
 * drv_nestk-th allocation that the OUTER call of a case makes, a complete signing call for
 * ANOTHER request (other credentials, region, variant, instant) is made and compared with what
 * the same call returned when it ran alone, before the outer call began; then the outer call goes
 * on and its result is compared with the model and the spec as always.  drv_nestk and the other
 * request are functions of the case text.  The nested call runs with drv_inlib = 0 and its own
 * clock: neither the refusal counter nor the outer call's time() sequence sees it. */
static long drv_nlib;	/* allocations made by the outer call so far */
static long drv_nestk;	/* 0 = no second request */
static uint32_t drv_nesth;
static int drv_nest_bad;
static int drv_nest_rc;
static char * drv_nest_want[3];

static int nest_sign(char * out[3])
{
	static const uint8_t body[] = "{\"TableName\":\"other\",\"Key\":{}}";
	char key_id[32], secret[48], region[24];
	uint32_t h = drv_nesth;
	time_t t0 = drv_t0; int tc = drv_tcalls, inlib = drv_inlib, rc, i;

	drv_inlib = 0;
	snprintf(key_id, sizeof(key_id), "AKIAOTHER%08X", (unsigned)h);
	snprintf(secret, sizeof(secret), "o%08x/+%08x=%u", (unsigned)(h * 2654435761u), (unsigned)~h, (unsigned)(h % 977));
	snprintf(region, sizeof(region), "other-%u", (unsigned)(h % 7));
	drv_t0 = (time_t)1400000000 + (time_t)(h % 400000000u); drv_tcalls = 0;
	out[0] = out[1] = out[2] = NULL;
	switch ((h >> 9) & 3) {
	case 0:
		rc = aws_sign_s3_headers(key_id, secret, region, "PUT", "otherbucket", "/other/object",
		    body, sizeof(body) - 1, &out[0], &out[1], &out[2]);
		break;
	case 1:
		out[0] = aws_sign_s3_querystr(key_id, secret, region, "GET", "otherbucket", "/other/object", 900);
		rc = (out[0] != NULL) ? 0 : -1;
		break;
	case 2:
		rc = aws_sign_svc_headers(key_id, secret, region, "sns", body, sizeof(body) - 1, &out[0], &out[1], &out[2]);
		break;
	default:
		rc = aws_sign_dynamodb_headers(key_id, secret, region, "GetItem", body, sizeof(body) - 1, &out[0], &out[1], &out[2]);
		break;
	}
	if (rc != 0)
		for (i = 0; i < 3; i++) out[i] = NULL;
	drv_t0 = t0; drv_tcalls = tc; drv_inlib = inlib;
	return rc;
}

static void nest_free(char * v[3])
{
	int i;
	for (i = 0; i < 3; i++) { if (v[i] != NULL) { drv_scribble_str(v[i]); free(v[i]); } v[i] = NULL; }
}

/* before the outer call: decide, and sign the other request alone */
static void nest_prepare(uint32_t h)
{
	nest_free(drv_nest_want);
	drv_nlib = 0; drv_nest_bad = 0; drv_nesth = h;
	drv_nestk = (long)((h >> 5) & 7);	/* 0, 7: none (no call makes 7 allocations) */
	if (drv_nestk)
		drv_nest_rc = nest_sign(drv_nest_want);
}

static void nest_now(void)
{
	char * got[3]; int rc, i;

	rc = nest_sign(got);
	if (rc != drv_nest_rc) drv_nest_bad = 1;
	for (i = 0; i < 3; i++)
		if ((got[i] == NULL) != (drv_nest_want[i] == NULL) ||
		    (got[i] != NULL && strcmp(got[i], drv_nest_want[i]) != 0))
			drv_nest_bad = 1;
	nest_free(got);
}

/* an allocation by library code: returns non-zero if it is to be refused */
static int lib_alloc(void)
{
	if (!drv_inlib) return 0;
	if (++drv_nlib == drv_nestk) nest_now();
	return (drv_failk && ++drv_nalloc == drv_failk);
}

void * __wrap_malloc(size_t n)
{
	if (lib_alloc()) return NULL;
	return __real_malloc(n);
}

char * __wrap_strdup(const char * s)
{
	if (lib_alloc()) return NULL;
	return __real_strdup(s);
}

/* Request bodies of odd length live at the END of one persistent region that is followed by an
 * inaccessible page: a caller that re-uses its buffer hands the library the same address and
 * length with different contents on consecutive requests (anything the library remembered about
 * "this buffer" is then stale), and a read past the body faults.  Bodies of even length are
 * exact-size heap blocks (ASan red zones on both sides), fresh for every request. */
#include <sys/mman.h>
#include <unistd.h>
#define DRV_ARENA (1u << 20)
static uint8_t * drv_arena_end;

static uint8_t * body_place(uint8_t * b, size_t len, int * inarena)
{
	*inarena = 0;
	if (b == NULL || (len % 2) == 0 || len > DRV_ARENA) return b;
	if (drv_arena_end == NULL) {
		long pg = sysconf(_SC_PAGESIZE);
		uint8_t * m = mmap(NULL, DRV_ARENA + (size_t)pg, PROT_READ | PROT_WRITE, MAP_PRIVATE | MAP_ANONYMOUS, -1, 0);
		if (m == MAP_FAILED || mprotect(m + DRV_ARENA, (size_t)pg, PROT_NONE)) { printf("bad-arena\n"); exit(3); }
		drv_arena_end = m + DRV_ARENA;
	}
	memcpy(drv_arena_end - len, b, len);
	free(b);
	*inarena = 1;
	return drv_arena_end - len;
}

static char * cstr_of(const char * tok)
{
	size_t n; uint8_t * p = drv_unhex(tok, &n, 1);
	return (char *)p;
}

static void puthexstr(const char * s) { drv_puthex((const uint8_t *)s, strlen(s)); }

/* Everything passed INTO a signing call is the caller's again when the call returns (aws_sign.h:
 * the results are returned values; nothing is said to be borrowed), so before the results are looked
 * at the argument strings are overwritten and freed and the body is overwritten in place: a result
 * that points into an argument, or anything computed lazily from one, shows. */
static void args_done(char ** a, int na, uint8_t * body, size_t bodylen, int inarena, uint8_t * bodycopy)
{
	int i;
	for (i = 0; i < na; i++) { drv_scribble_str(a[i]); free(a[i]); }
	/* the body is `const` for the library: it must still hold what was passed in */
	if (body != NULL) drv_input_check(bodycopy, body, bodylen, "body-modified ");
	if (body != NULL) { drv_scribble(body, bodylen); if (!inarena) free(body); }
}
/* result pointers start as junk, not as NULL */
#define DRV_JUNKPTR ((char *)(uintptr_t)0x5a5a5a5a5a5aULL)

int main(void)
{
	char * line; char * tok[12];
	setvbuf(stdout, NULL, _IOLBF, 0);
	while ((line = drv_getline()) != NULL) {
		uint32_t h = drv_case_hash(line);
		int n = drv_split(line, tok, 12);
		drv_failk = 0; drv_nalloc = 0;
		nest_prepare(h);
		if (n >= 3 && strcmp(tok[0], "fail") == 0) {
			int j; drv_failk = atol(tok[1]);
			for (j = 2; j < n; j++) tok[j - 2] = tok[j];
			n -= 2;
		}
		char * a[8]; int i; char * c = DRV_JUNKPTR, * d = DRV_JUNKPTR, * au = DRV_JUNKPTR;
		uint8_t * body = NULL; size_t bodylen = 0; int rc; int inarena = 0; uint8_t * bcp = NULL;
		drv_tcalls = 0;
		if (n == 9 && strcmp(tok[0], "s3h") == 0) {
			for (i = 0; i < 6; i++) a[i] = cstr_of(tok[1 + i]);
			if (strcmp(tok[7], "NULL") != 0) { body = drv_unhex(tok[7], &bodylen, 0); body = body_place(body, bodylen, &inarena); } else bodylen = DRV_NULL_BODYLEN;
			drv_t0 = (time_t)strtoll(tok[8], NULL, 10);
			bcp = body ? drv_input_copy(body, bodylen) : NULL;
			drv_inlib = 1; rc = aws_sign_s3_headers(a[0], a[1], a[2], a[3], a[4], a[5], body, bodylen, &c, &d, &au); drv_inlib = 0;
			args_done(a, 6, body, bodylen, inarena, bcp);
			if (drv_nest_bad) printf("!other-request-disturbed ");
			if (rc == 0) { printf("ok "); puthexstr(c); printf(" "); puthexstr(d); printf(" "); puthexstr(au); printf("\n"); free(c); free(d); free(au); }
			else printf("fail\n");
		} else if (n == 9 && strcmp(tok[0], "s3q") == 0) {
			char * q;
			for (i = 0; i < 6; i++) a[i] = cstr_of(tok[1 + i]);
			drv_t0 = (time_t)strtoll(tok[8], NULL, 10);
			drv_inlib = 1; q = aws_sign_s3_querystr(a[0], a[1], a[2], a[3], a[4], a[5], atoi(tok[7])); drv_inlib = 0;
			args_done(a, 6, NULL, 0, 0, NULL);
			if (drv_nest_bad) printf("!other-request-disturbed ");
			if (q) { printf("ok "); puthexstr(q); printf("\n"); free(q); } else printf("fail\n");
		} else if (n == 7 && (strcmp(tok[0], "svc") == 0 || strcmp(tok[0], "ddb") == 0)) {
			for (i = 0; i < 4; i++) a[i] = cstr_of(tok[1 + i]);
			if (strcmp(tok[5], "NULL") != 0) { body = drv_unhex(tok[5], &bodylen, 0); body = body_place(body, bodylen, &inarena); } else bodylen = DRV_NULL_BODYLEN;
			drv_t0 = (time_t)strtoll(tok[6], NULL, 10);
			bcp = body ? drv_input_copy(body, bodylen) : NULL;
			drv_inlib = 1;
			if (tok[0][0] == 's')
				rc = aws_sign_svc_headers(a[0], a[1], a[2], a[3], body, bodylen, &c, &d, &au);
			else
				rc = aws_sign_dynamodb_headers(a[0], a[1], a[2], a[3], body, bodylen, &c, &d, &au);
			drv_inlib = 0;
			args_done(a, 4, body, bodylen, inarena, bcp);
			if (drv_nest_bad) printf("!other-request-disturbed ");
			if (rc == 0) { printf("ok "); puthexstr(c); printf(" "); puthexstr(d); printf(" "); puthexstr(au); printf("\n"); free(c); free(d); free(au); }
			else printf("fail\n");
		} else
			printf("bad-case\n");
	}
	return 0;
}
