/* State shared between harness/wrap_http.c (interposers) and harness/drv_http.c. */
#ifndef WRAP_HTTP_H
#define WRAP_HTTP_H
#include <stddef.h>
#include <stdint.h>

struct wrap_http {
	/* server script */
	const uint8_t * stream;		/* bytes the server sends */
	size_t streamlen;
	const size_t * segs;		/* scripted segment sizes (0 = one EAGAIN) */
	size_t nsegs;
	size_t segrep;			/* size of every unscripted segment (0 = all the rest at once) */
	int ending;			/* 'e' EOF, 'r' ECONNRESET, 's' stall */
	size_t pos, seg_i, seg_left;
	int sockerr;			/* answer of getsockopt(SO_ERROR) */
	int stalled;			/* a poll found nothing ready */
	/* client bytes */
	uint8_t * sent;
	size_t sentlen, sentcap;
	size_t sendchunk;		/* max bytes per send (0 = unlimited) */
	size_t sendfail_at;		/* this send call fails (0 = never) */
	/* allocator */
	int track;			/* count / refuse / keep live set */
	size_t nallocs, nrefused, nlive;
	size_t fail_at, fail_from;
	int overflow;
	/* a SECOND connection (option peer=..): the second socket() of the case belongs to another
	 * request that is alive at the same time; its complete response arrives in one piece, followed by
	 * EOF, once the first connection has delivered b_after data segments (or has nothing more to
	 * deliver / its request is over); while it is arriving the first connection is silent */
	int has_b, fd_a, fd_b, a_done, b_done, b_eof;
	const uint8_t * bstream;
	size_t bstreamlen, bpos, b_after, a_datasegs;
	uint8_t * bsent;
	size_t bsentlen, bsentcap;
	/* call counters */
	size_t nsocket, nconnect, nclose, npoll, nrecv, nsend;
};
extern struct wrap_http wh;

int wh_is_live(const void *);
void * __real_malloc(size_t);
void * __real_realloc(void *, size_t);
void __real_free(void *);
#endif
