/* Driver for events/events.c, events_immediate.c, events_network.c, events_timer.c (with
 * datastruct/timerqueue.c, ptrheap.c, elasticarray.c) from /repo.  Same case lines and the same
 * trace lines as model/events_main.ml (the grammar is documented there).
 *
 * Every case runs in a forked child: the library keeps its state in statics, so a fresh
 * process is the only faithful "initial state"; a crash costs one line; the atexit handlers
 * of the library run at the child's exit and the allocator interposer (wrap_events.c) then
 * reports library blocks that are still live (C14: no leak), followed by LeakSanitizer.
 *
 * The driver is a well-behaved client: it remembers which of its registrations are live
 * (registered, not cancelled, callback not yet entered) and never passes a dead handle to a
 * cancel/reset call (such an operation of the program is skipped, as in the model).
 * "td" is "tr" through events_timer_register_double (same trace).
 * In a register operation the last number [af] = k > 0 makes the k-th allocation performed by
 * library code during that call fail; k < 0 makes the |k|-th and every later one fail.  A
 * trailing "k 1" refuses every allocation during cancel calls (which cannot fail). */
#include <errno.h>
#include <sys/wait.h>
#include <unistd.h>

#define DRV_NO_LINE_WATCHDOG 1
#include "drv_common.h"
#include "events.h"
#include "wrap_events.h"

enum { O_IR, O_IC, O_NR, O_NC, O_TR, O_TX, O_TS, O_IN, O_DN, O_TD, O_RUN, O_SPIN };
struct op { int code; long a[5]; };
struct script { int nops; struct op * ops; long rc; };
struct cbdef { int nscripts; struct script * scripts; int runs; };

enum { K_IMM, K_NET, K_TMR };
struct reg { long rid; int cb; int kind; int fd, dir; int live; void * handle; struct reg * next; };

static struct cbdef * prog;
static int ncb;
static struct reg * regs;		/* every registration attempt of this case */
static struct reg * vars[64];
static struct reg * shadow[64][2];	/* what the client believes is registered per fd/direction */
static long next_rid;
static int done_flag;
static long cancel_af;		/* -1: refuse every allocation during cancel calls */
static int net_used;		/* a descriptor registration succeeded: events_network.c is initialised */

static char ** tok;
static int ntok, tpos;

static const char *
nexttok(void)
{

	if (tpos >= ntok) {
		static const char * bad = "?";
		return (bad);
	}
	return (tok[tpos++]);
}

static long
nextint(void)
{

	return (strtol(nexttok(), NULL, 10));
}

static int
parse_op(struct op * o, const char * t)
{
	int i, n = 0;

	if (!strcmp(t, "ir")) { o->code = O_IR; n = 4; }
	else if (!strcmp(t, "ic")) { o->code = O_IC; n = 1; }
	else if (!strcmp(t, "nr")) { o->code = O_NR; n = 4; }
	else if (!strcmp(t, "nc")) { o->code = O_NC; n = 2; }
	else if (!strcmp(t, "tr")) { o->code = O_TR; n = 5; }
	else if (!strcmp(t, "td")) { o->code = O_TD; n = 5; }
	else if (!strcmp(t, "tx")) { o->code = O_TX; n = 1; }
	else if (!strcmp(t, "ts")) { o->code = O_TS; n = 1; }
	else if (!strcmp(t, "in")) { o->code = O_IN; n = 0; }
	else if (!strcmp(t, "dn")) { o->code = O_DN; n = 0; }
	else if (!strcmp(t, "run")) { o->code = O_RUN; n = 0; }
	else if (!strcmp(t, "spin")) { o->code = O_SPIN; n = 0; }
	else return (-1);
	for (i = 0; i < n; i++)
		o->a[i] = nextint();
	return (0);
}

static const char *
errclass(int e)
{

	if (e == 0) return ("0");
	if (e == EEXIST) return ("EEXIST");
	if (e == ENOENT) return ("ENOENT");
	if (e == ENOMEM) return ("ENOMEM");
	return ("EOTHER");
}

static int callback(void *);

static struct reg *
newreg(int cb, int kind, int fd, int dir)
{
	struct reg * g = malloc(sizeof(struct reg));

	g->rid = -1; g->cb = cb; g->kind = kind; g->fd = fd; g->dir = dir; g->live = 0;
	g->handle = NULL; g->next = regs; regs = g;
	return (g);
}

/* enter / leave library code around one API call; af arms the allocation failure */
static int lib_depth_saved;
static void
lib_enter(long af)
{

	lib_depth_saved = w_in_lib;
	/* errno holds junk from earlier, unrelated work (never 0): a reported failure must set its own
	 * (events.h: EEXIST / ENOENT; the allocator sets ENOMEM), a success may not depend on it */
	errno = EDOM;
	w_fail_hit = 0;
	w_fail_persist = (af < 0);
	w_fail_countdown = (af < 0) ? -af : af;
	w_in_lib = 1;
}

static void
lib_leave(void)
{

	w_in_lib = lib_depth_saved;
	w_fail_countdown = 0;
	w_fail_persist = 0;
}

static void
registered(struct reg * g)
{

	g->rid = next_rid++;
	g->live = 1;
	if (w_fail_hit)
		w_emit("AH");	/* an allocation was refused and the call reported success */
}

static void
exec_op(struct op * o)
{
	struct reg * g;
	void * h;
	int rc, e;
	struct timeval tv;

	switch (o->code) {
	case O_IR:
		g = newreg((int)o->a[0], K_IMM, 0, 0);
		lib_enter(o->a[3]);
		h = events_immediate_register(callback, g, (int)o->a[1]);
		e = errno;
		lib_leave();
		if (h == NULL)
			w_emit("FI %ld %s", o->a[1], errclass(e));
		else {
			registered(g);
			g->handle = h;
			if (o->a[2] >= 0 && o->a[2] < 64)
				vars[o->a[2]] = g;
			w_emit("R %ld i %ld", g->rid, o->a[1]);
		}
		break;
	case O_IC:
		g = (o->a[0] >= 0 && o->a[0] < 64) ? vars[o->a[0]] : NULL;
		if (g != NULL && g->kind == K_IMM && g->live) {
			lib_enter(cancel_af);
			events_immediate_cancel(g->handle);
			lib_leave();
			g->live = 0;
			w_emit("X %ld", g->rid);
		}
		break;
	case O_NR:
		g = newreg((int)o->a[0], K_NET, (int)o->a[1], (int)o->a[2]);
		lib_enter(o->a[3]);
		rc = events_network_register(callback, g, (int)o->a[1], (int)o->a[2]);
		e = errno;
		lib_leave();
		if (rc != 0)
			w_emit("FN %ld %ld %s", o->a[1], o->a[2], errclass(e));
		else {
			registered(g);
			net_used = 1;
			if (g->fd >= 0 && g->fd < 64 && (g->dir == 0 || g->dir == 1))
				shadow[g->fd][g->dir] = g;
			w_emit("R %ld n %ld %ld", g->rid, o->a[1], o->a[2]);
		}
		break;
	case O_NC:
		/*
		 * Before its first use events_network_cancel has to create the
		 * (empty) socket list and reports ENOMEM instead of ENOENT if it
		 * cannot; there is nothing to cancel in that state, so allocations
		 * are refused only once the module is initialised.
		 */
		lib_enter(net_used ? cancel_af : 0);
		rc = events_network_cancel((int)o->a[0], (int)o->a[1]);
		e = errno;
		lib_leave();
		if (rc != 0)
			w_emit("XF %ld %ld %s", o->a[0], o->a[1], errclass(e));
		else {
			g = NULL;
			if (o->a[0] >= 0 && o->a[0] < 64 && (o->a[1] == 0 || o->a[1] == 1))
				g = shadow[o->a[0]][o->a[1]];
			if (g != NULL && g->live) {
				g->live = 0;
				shadow[o->a[0]][o->a[1]] = NULL;
				w_emit("X %ld", g->rid);
			} else
				w_emit("XB %ld %ld", o->a[0], o->a[1]);
		}
		break;
	case O_TR:
	case O_TD:
		g = newreg((int)o->a[0], K_TMR, 0, 0);
		tv.tv_sec = (time_t)o->a[1];
		tv.tv_usec = (suseconds_t)o->a[2];
		if (o->code == O_TD) {
			/* the same timeout through the double interface; the generator only uses fractions
			 * that are multiples of 1/64 s (15625 us) and fewer than 2^46 seconds, so that the
			 * double IS sec + usec / 10^6 and converts back to exactly (sec, usec) */
			volatile double timeo = (double)o->a[1] + (double)o->a[2] / 1000000.0;
			lib_enter(o->a[4]);
			h = events_timer_register_double(callback, g, timeo);
			e = errno;
			lib_leave();
		} else {
			lib_enter(o->a[4]);
			h = events_timer_register(callback, g, &tv);
			e = errno;
			lib_leave();
		}
		/* events.h: "${timeo} in the future" is a value; the caller's object is its own again as
		 * soon as the call returns (events_timer_reset restores the timer's "initial value", not
		 * whatever the caller's variable holds by then) */
		tv.tv_sec = 86400 * 365 + 12345; tv.tv_usec = 999999;
		if (h == NULL)
			w_emit("FT %ld %ld %s", o->a[1], o->a[2], errclass(e));
		else {
			registered(g);
			g->handle = h;
			if (o->a[3] >= 0 && o->a[3] < 64)
				vars[o->a[3]] = g;
			w_emit("R %ld t %ld %ld", g->rid, o->a[1], o->a[2]);
		}
		break;
	case O_TX:
		g = (o->a[0] >= 0 && o->a[0] < 64) ? vars[o->a[0]] : NULL;
		if (g != NULL && g->kind == K_TMR && g->live) {
			lib_enter(cancel_af);
			events_timer_cancel(g->handle);
			lib_leave();
			g->live = 0;
			w_emit("X %ld", g->rid);
		}
		break;
	case O_TS:
		g = (o->a[0] >= 0 && o->a[0] < 64) ? vars[o->a[0]] : NULL;
		if (g != NULL && g->kind == K_TMR && g->live) {
			lib_enter(0);
			rc = events_timer_reset(g->handle);
			lib_leave();
			if (rc == 0)
				w_emit("Z %ld", g->rid);
			else
				w_emit("ZF %ld", g->rid);
		}
		break;
	case O_IN:
		lib_enter(0);
		events_interrupt();
		lib_leave();
		w_emit("INT");
		break;
	case O_DN:
		done_flag = 1;
		w_emit("DONE");
		break;
	case O_RUN:
		w_emit("RS");
		lib_enter(0);
		rc = events_run();
		lib_leave();
		w_emit("RE %d", rc);
		break;
	case O_SPIN:
		w_emit("SS");
		lib_enter(0);
		rc = events_spin(&done_flag);
		lib_leave();
		w_emit("SE %d", rc);
		break;
	}
}

/* every registration uses this callback; the cookie is the client's registration record */
static int
callback(void * cookie)
{
	struct reg * g = cookie;
	struct script * sc = NULL;
	int i, saved = w_in_lib;
	long rc = 0;

	w_in_lib = 0;
	if (g->rid < 0)
		w_emit("IB");
	else
		w_emit("I %ld", g->rid);
	g->live = 0;
	if (g->kind == K_NET && g->fd >= 0 && g->fd < 64 && (g->dir == 0 || g->dir == 1) &&
	    shadow[g->fd][g->dir] == g)
		shadow[g->fd][g->dir] = NULL;
	if (g->cb >= 0 && g->cb < ncb) {
		int k = prog[g->cb].runs++;
		if (k < prog[g->cb].nscripts)
			sc = &prog[g->cb].scripts[k];
	}
	if (sc != NULL) {
		for (i = 0; i < sc->nops; i++)
			exec_op(&sc->ops[i]);
		rc = sc->rc;
	}
	w_emit("V %ld", rc);
	w_in_lib = saved;
	return ((int)rc);
}

static void
leak_report(void)
{

	/* registered first, hence runs after the library's own atexit handlers */
	if (w_live() != 0) {
		fprintf(stderr, "ERROR: LeakSanitizer: (interposer) %ld library block(s) still allocated at exit\n",
		    w_live());
		fflush(stderr);
		_exit(25);
	}
}

static int
run_case(int wfd)
{
	int i, j, k, n;
	struct op * xops;
	int nx;
	const char * t;
	struct reg * g;
	const char * out;
	size_t len;

	atexit(leak_report);
	t = nexttok();
	if (strcmp(t, "ev") != 0)
		goto bad;
	ncb = (int)nextint();
	if (ncb < 0 || ncb > 1000)
		goto bad;
	prog = calloc((size_t)ncb + 1, sizeof(struct cbdef));
	for (i = 0; i < ncb; i++) {
		prog[i].nscripts = (int)nextint();
		prog[i].scripts = calloc((size_t)prog[i].nscripts + 1, sizeof(struct script));
		for (j = 0; j < prog[i].nscripts; j++) {
			struct script * sc = &prog[i].scripts[j];
			sc->nops = (int)nextint();
			sc->ops = calloc((size_t)sc->nops + 1, sizeof(struct op));
			for (k = 0; k < sc->nops; k++)
				if (parse_op(&sc->ops[k], nexttok()) || sc->ops[k].code >= O_RUN)
					goto bad;
			sc->rc = nextint();
		}
	}
	if (strcmp(nexttok(), "x") != 0)
		goto bad;
	nx = (int)nextint();
	xops = calloc((size_t)nx + 1, sizeof(struct op));
	for (i = 0; i < nx; i++)
		if (parse_op(&xops[i], nexttok()))
			goto bad;
	if (strcmp(nexttok(), "p") != 0)
		goto bad;
	w_npolls = (int)nextint();
	w_polls = calloc((size_t)w_npolls + 1, sizeof(struct w_poll));
	for (i = 0; i < w_npolls; i++) {
		t = nexttok();
		if (!strcmp(t, "e0")) w_polls[i].kind = 1;
		else if (!strcmp(t, "e1")) w_polls[i].kind = 2;
		else if (!strcmp(t, "r")) {
			n = (int)nextint();
			if (n < 0 || n > 16)
				goto bad;
			w_polls[i].n = n;
			for (j = 0; j < n; j++) {
				w_polls[i].fd[j] = (int)nextint();
				w_polls[i].bits[j] = (int)nextint();
			}
		} else
			goto bad;
	}
	if (strcmp(nexttok(), "c") != 0)
		goto bad;
	w_nclocks = (int)nextint();
	w_clocks = calloc((size_t)w_nclocks + 1, sizeof(struct timeval));
	for (i = 0; i < w_nclocks; i++) {
		w_clocks[i].tv_sec = (time_t)nextint();
		w_clocks[i].tv_usec = (suseconds_t)nextint();
	}
	if (tpos < ntok && strcmp(tok[tpos], "k") == 0) {
		tpos++;
		if (nextint() != 0)
			cancel_af = -1;
	}

	/* run */
	w_tracing = 1;
	w_emit("ok");
	for (i = 0; i < nx; i++)
		exec_op(&xops[i]);
	w_tracing = 0;

	/* release everything the client still holds, so that the exit-time accounting is exact */
	for (g = regs; g != NULL; g = g->next) {
		if (!g->live)
			continue;
		w_in_lib = 1;
		if (g->kind == K_IMM)
			events_immediate_cancel(g->handle);
		else if (g->kind == K_TMR)
			events_timer_cancel(g->handle);
		else
			events_network_cancel(g->fd, g->dir);
		w_in_lib = 0;
		g->live = 0;
	}
	out = w_output(&len);
	/* skip the blank w_emit puts in front */
	if (len > 0 && write(wfd, out + 1, len - 1) < 0)
		return (3);
	return (0);
bad:
	if (write(wfd, "bad-case", 8) < 0)
		return (3);
	return (0);
}

int
main(void)
{
	char * line;
	static char buf[1 << 20];

	setvbuf(stdout, NULL, _IOLBF, 0);
	while ((line = drv_getline()) != NULL) {
		int pfd[2], status = 0;
		pid_t pid;
		ssize_t n;
		size_t len = 0;

		/* tokenise */
		{
			size_t cap = strlen(line) / 2 + 2;
			tok = malloc(cap * sizeof(char *));
			ntok = drv_split(line, tok, (int)cap);
			tpos = 0;
		}
		if (pipe(pfd) != 0)
			return (2);
		fflush(stdout);
		pid = fork();
		if (pid < 0)
			return (2);
		if (pid == 0) {
			close(pfd[0]);
			drv_case_limits();
			exit(run_case(pfd[1]));
		}
		close(pfd[1]);
		while ((n = read(pfd[0], buf + len, sizeof(buf) - 1 - len)) > 0)
			len += (size_t)n;
		close(pfd[0]);
		buf[len] = 0;
		while (waitpid(pid, &status, 0) < 0 && errno == EINTR)
			;
		fputs(buf, stdout);
		if (WIFSIGNALED(status))
			printf("%s!signal=%d", len ? " " : "", WTERMSIG(status));
		else if (WEXITSTATUS(status) != 0)
			printf("%s!exit=%d", len ? " " : "", WEXITSTATUS(status));
		printf("\n");
		free(tok);
	}
	return (0);
}
