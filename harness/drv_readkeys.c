/* Driver for aws/aws_readkeys.c (C20 key-file part, also serves C14/C15 observations).
 * Built at the repository's -O2 WITHOUT sanitizers so that a wipe the compiler could elide shows.
 * --wrap=strdup,free: records every block the library allocates, can refuse the k-th strdup, and
 * dumps the content of each block at the moment it is handed to free. */
#include <unistd.h>
#include "drv_common.h"
#include "aws_readkeys.h"

char * __real_strdup(const char *);
void __real_free(void *);

static struct { char * p; size_t len; } blocks[8];
static int nblocks;
static const char * oracle; static size_t opos;
static char ** cur_id, ** cur_secret;
static int active;
static char evbuf[1 << 16]; static size_t evlen;

static void ev(const char * kind, const uint8_t * p, size_t n)
{
	size_t i;
	evlen += (size_t)snprintf(evbuf + evlen, sizeof(evbuf) - evlen, "%s%s ", evlen ? " , " : "", kind);
	if (n == 0) evlen += (size_t)snprintf(evbuf + evlen, sizeof(evbuf) - evlen, "-");
	for (i = 0; i < n && evlen + 3 < sizeof(evbuf); i++)
		evlen += (size_t)snprintf(evbuf + evlen, sizeof(evbuf) - evlen, "%02x", p[i]);
}

char * __wrap_strdup(const char * s)
{
	char * p;
	if (!active) return __real_strdup(s);
	if (oracle && oracle[opos] != '\0') { if (oracle[opos++] == '0') return NULL; }
	p = __real_strdup(s);
	if (p && nblocks < 8) { blocks[nblocks].p = p; blocks[nblocks].len = strlen(s); nblocks++; ev("alloc", (uint8_t *)p, strlen(s)); }
	return p;
}

void __wrap_free(void * q)
{
	int i;
	if (active && q != NULL) {
		for (i = 0; i < nblocks; i++) if (blocks[i].p == q) {
			if (cur_secret && *cur_secret == q) ev("freesecret", (uint8_t *)q, blocks[i].len);
			else if (cur_id && *cur_id == q) ev("freeid", (uint8_t *)q, blocks[i].len);
			else ev("freeother", (uint8_t *)q, blocks[i].len);
			blocks[i].p = NULL;
		}
	}
	__real_free(q);
}

int main(int argc, char ** argv)
{
	char * line; char * tok[4]; char tmpl[] = "/tmp/verif-readkeys-XXXXXX"; char path[64];
	(void)argc; (void)argv;
	setvbuf(stdout, NULL, _IOLBF, 0);
	if (mkdtemp(tmpl) == NULL) return 2;
	snprintf(path, sizeof(path), "%s/keys", tmpl);
	freopen("/dev/null", "w", stderr);   /* warn0 chatter */
	while ((line = drv_getline()) != NULL) {
		int n = drv_split(line, tok, 4);
		if (n == 3 && strcmp(tok[0], "readkeys") == 0) {
			size_t flen; uint8_t * fb = drv_unhex(tok[1], &flen, 0);
			/* result pointers start as junk (aws_readkeys.h: they are outputs); the file name is
			 * passed in a block of its own that is overwritten and released after the call */
			FILE * f = fopen(path, "wb"); char * id = (char *)(uintptr_t)0x5a5a5a5a5a5aULL, * sec = (char *)(uintptr_t)0x5a5a5a5a5a5aULL; int rc;
			char * fn = __real_strdup(path);
			fwrite(fb, 1, flen, f); fclose(f); __real_free(fb);
			oracle = strcmp(tok[2], "-") ? tok[2] : NULL; opos = 0;
			nblocks = 0; evlen = 0; evbuf[0] = 0; cur_id = &id; cur_secret = &sec;
			active = 1;
			rc = aws_readkeys(fn, &id, &sec);
			active = 0;
			drv_scribble_str(fn); __real_free(fn);
			if (rc == 0) {
				printf("ok "); drv_puthex((uint8_t *)id, strlen(id)); printf(" "); drv_puthex((uint8_t *)sec, strlen(sec));
				__real_free(id); __real_free(sec);
			} else printf("fail");
			printf(" ; %s\n", evbuf);
		} else printf("bad-case\n");
	}
	unlink(path); rmdir(tmpl);
	return 0;
}
