/* Driver for datastruct/{elasticarray,elasticqueue,seqptrmap}.c and mpool.h.
 * Case and result lines: see model/ds_main.ml.  Linked with wrap_alloc_ds.c through
 * --wrap=malloc,realloc,free,atexit.  Client data is kept in allocations of exactly its size. */
#include <errno.h>
#include <inttypes.h>

#include "drv_common.h"
#include "elasticarray.h"
#include "elasticqueue.h"
#include "seqptrmap.h"
#include "mpool.h"

extern int wrap_active;
extern uint64_t wrap_refusals;
extern void (* wrap_exit_fn[])(void);
extern int wrap_exit_n;
void wrap_begin_case(int, uint64_t);
const char * wrap_take_log(void);
size_t wrap_live(void);
size_t wrap_block_size(void *);
uint64_t wrap_block_ordinal(void *);

/* errno on entry is whatever the surrounding program left there (never 0 here): the headers say the
 * functions "return NULL or (int)(-1) on error and set errno", so a reported failure must come with
 * an errno of its own and a success may not depend on the value found. */
#define LIB(stmt) do { errno = EDOM; wrap_active = 1; stmt; wrap_active = 0; } while (0)

/* ---- three growing text sections ---- */
struct sec { char * s; size_t len, cap; int items; };
static struct sec obs, cap, alc;

static void
sec_reset(struct sec * S)
{
	S->len = 0; S->items = 0;
	if (S->s) S->s[0] = 0;
}

static void
sec_add(struct sec * S, const char * t, size_t n)
{
	if (S->len + n + 1 > S->cap) {
		S->cap = (S->len + n + 1) * 2;
		S->s = realloc(S->s, S->cap);
	}
	memcpy(S->s + S->len, t, n);
	S->len += n;
	S->s[S->len] = 0;
}

static void sec_str(struct sec * S, const char * t) { sec_add(S, t, strlen(t)); }
static void sec_item(struct sec * S) { if (S->items++) sec_str(S, ";"); }

static void
sec_hex(struct sec * S, const uint8_t * p, size_t n)
{
	static const char hx[] = "0123456789abcdef";
	char two[2];
	size_t i;
	if (n == 0) { sec_str(S, "-"); return; }
	for (i = 0; i < n; i++) {
		two[0] = hx[p[i] >> 4]; two[1] = hx[p[i] & 15];
		sec_add(S, two, 2);
	}
}

static void
sec_u64(struct sec * S, uint64_t v)
{
	char b[32];
	snprintf(b, sizeof(b), "%" PRIx64, v);
	sec_str(S, b);
}

static void
sec_i64(struct sec * S, int64_t v)
{
	if (v < 0) { sec_str(S, "-"); sec_u64(S, (uint64_t)0 - (uint64_t)v); }
	else sec_u64(S, (uint64_t)v);
}

static const char *
errname(void)
{
	return (errno == ENOMEM ? "ENOMEM" : errno == 0 ? "E0" : errno == EINVAL ? "EINVAL" : "Eother");
}

static void
sec_rc(struct sec * S, int ok)
{
	if (ok) sec_str(S, "rc0");
	else { sec_str(S, "rc-1:"); sec_str(S, errname()); }
}

static uint64_t hexnum(const char * s) { return (strtoull(s, NULL, 16)); }

static int64_t
hexsnum(const char * s)
{
	if (s[0] == '-')
		return ((int64_t)((uint64_t)0 - strtoull(s + 1, NULL, 16)));
	return ((int64_t)strtoull(s, NULL, 16));
}

/* split an op token on ':' */
static int
fields(char * tok, char ** f, int max)
{
	int n = 0;
	char * p = tok;
	f[n++] = p;
	while ((p = strchr(p, ':')) != NULL && n < max) {
		*p++ = 0;
		f[n++] = p;
	}
	return (n);
}

static void
end_op(void)
{
	sec_item(&alc);
	sec_str(&alc, wrap_take_log());
}

static void
finish(void)
{
	char b[64];
	sec_item(&obs);
	snprintf(b, sizeof(b), "live=%zu", wrap_live());
	sec_str(&obs, b);
	printf("%s | %s | %s\n", obs.s ? obs.s : "", cap.s && cap.len ? cap.s : "", alc.s && alc.len ? alc.s : "");
}

/* ------------------------------ elastic array ------------------------------ */
static void
ea_state(struct elasticarray * EA)
{
	if (EA == NULL) {
		sec_str(&obs, "@none");
		sec_item(&cap); sec_str(&cap, "-");
		return;
	}
	size_t sz = elasticarray_getsize(EA, 1);
	sec_str(&obs, "@"); sec_u64(&obs, sz); sec_str(&obs, ":");
	sec_hex(&obs, sz ? elasticarray_get(EA, 0, 1) : NULL, sz);
	sec_item(&cap);
	sec_u64(&cap, wrap_block_size(elasticarray_get(EA, 0, 1)));
}

static void
run_ea(char ** ops, int nops)
{
	struct elasticarray * EA = NULL;
	char * f[6];
	int i;

	for (i = 0; i < nops; i++) {
		int nf = fields(ops[i], f, 6);
		int isinit = (strcmp(f[0], "init") == 0);
		sec_item(&obs);
		if ((EA == NULL) != isinit) {
			sec_str(&obs, "noobj");
		} else if (isinit && nf == 4) {
			size_t nrec = hexnum(f[1]), reclen = hexnum(f[2]);
			LIB(EA = elasticarray_init(nrec, reclen));
			sec_rc(&obs, EA != NULL);
			if (EA != NULL) {
				size_t sz = elasticarray_getsize(EA, 1);
				if (sz) memset(elasticarray_get(EA, 0, 1), (int)hexnum(f[3]), sz);
			}
		} else if (strcmp(f[0], "res") == 0 && nf == 4) {
			size_t nrec = hexnum(f[1]), reclen = hexnum(f[2]);
			size_t old = elasticarray_getsize(EA, 1);
			int rc;
			LIB(rc = elasticarray_resize(EA, nrec, reclen));
			sec_rc(&obs, rc == 0);
			if (rc == 0) {
				size_t sz = elasticarray_getsize(EA, 1);
				if (sz > old)
					memset(elasticarray_get(EA, old, 1), (int)hexnum(f[3]), sz - old);
			}
		} else if (strcmp(f[0], "app") == 0 && nf == 4) {
			size_t nrec = hexnum(f[1]), reclen = hexnum(f[2]), dlen;
			uint8_t * d = drv_unhex(f[3], &dlen, 0);
			int rc;
			LIB(rc = elasticarray_append(EA, d, nrec, reclen));
			sec_rc(&obs, rc == 0);
			drv_scribble_free(d, dlen);	/* appended = copied: the source is the caller's again */
		} else if (strcmp(f[0], "shr") == 0 && nf == 3) {
			LIB(elasticarray_shrink(EA, hexnum(f[1]), hexnum(f[2])));
			sec_str(&obs, "unit");
		} else if (strcmp(f[0], "trunc") == 0) {
			int rc;
			LIB(rc = elasticarray_truncate(EA));
			sec_rc(&obs, rc == 0);
		} else if (strcmp(f[0], "get") == 0 && nf == 3) {
			/* record (pos mod number of records), if there is any record */
			size_t reclen = hexnum(f[2]);
			size_t n = elasticarray_getsize(EA, reclen);
			if (n == 0)
				sec_str(&obs, "norec");
			else {
				uint8_t * p = elasticarray_get(EA, hexnum(f[1]) % n, reclen);
				sec_str(&obs, "rec"); sec_hex(&obs, p, reclen);
			}
		} else if (strcmp(f[0], "size") == 0 && nf == 2) {
			sec_str(&obs, "sz"); sec_u64(&obs, elasticarray_getsize(EA, hexnum(f[1])));
		} else if (strcmp(f[0], "exp") == 0 && nf == 2) {
			void * buf = (void *)(uintptr_t)0x5a5a5a5a5a5aULL; size_t nrec = 0xa5a5a5a5u, sz = elasticarray_getsize(EA, 1);	/* outputs start as junk */
			int rc;
			LIB(rc = elasticarray_export(EA, &buf, &nrec, hexnum(f[1])));
			if (rc == 0) {
				sec_str(&obs, "exp0:"); sec_hex(&obs, buf, sz); sec_str(&obs, ":"); sec_u64(&obs, nrec);
				free(buf);
				EA = NULL;
			} else { sec_str(&obs, "exp-1:"); sec_str(&obs, errname()); }
		} else if (strcmp(f[0], "dup") == 0 && nf == 2) {
			void * buf = (void *)(uintptr_t)0x5a5a5a5a5a5aULL; size_t nrec = 0xa5a5a5a5u, sz = elasticarray_getsize(EA, 1);	/* outputs start as junk */
			int rc;
			LIB(rc = elasticarray_exportdup(EA, &buf, &nrec, hexnum(f[1])));
			if (rc == 0) {
				sec_str(&obs, "exp0:"); sec_hex(&obs, buf, sz); sec_str(&obs, ":"); sec_u64(&obs, nrec);
				free(buf);
			} else { sec_str(&obs, "exp-1:"); sec_str(&obs, errname()); }
		} else if (strcmp(f[0], "free") == 0) {
			LIB(elasticarray_free(EA));
			EA = NULL;
			sec_str(&obs, "unit");
		} else
			sec_str(&obs, "bad-op");
		ea_state(EA);
		end_op();
	}
	finish();
	elasticarray_free(EA);
}

/* ------------------------------ elastic queue ------------------------------ */
static void
eq_state(struct elasticqueue * EQ, size_t reclen)
{
	size_t i, len;
	if (EQ == NULL) { sec_str(&obs, "@none"); return; }
	len = elasticqueue_getlen(EQ);
	sec_str(&obs, "@"); sec_u64(&obs, len); sec_str(&obs, ":");
	for (i = 0; i < len; i++) {
		uint8_t * p = elasticqueue_get(EQ, i);
		if (i) sec_str(&obs, ",");
		if (p == NULL) sec_str(&obs, "NULL"); else sec_hex(&obs, p, reclen);
	}
	if (elasticqueue_get(EQ, len) != NULL || elasticqueue_get(EQ, len + 7) != NULL)
		sec_str(&obs, "!nonnull-past-end");
}

static void
run_eq(char ** ops, int nops)
{
	struct elasticqueue * EQ = NULL;
	size_t reclen = 0;
	char * f[4];
	int i;

	for (i = 0; i < nops; i++) {
		int nf = fields(ops[i], f, 4);
		int isinit = (strcmp(f[0], "init") == 0);
		sec_item(&obs);
		if ((EQ == NULL) != isinit) {
			sec_str(&obs, "noobj");
		} else if (isinit && nf == 2) {
			reclen = hexnum(f[1]);
			LIB(EQ = elasticqueue_init(reclen));
			sec_rc(&obs, EQ != NULL);
		} else if (strcmp(f[0], "add") == 0 && nf == 2) {
			size_t dlen; uint8_t * d = drv_unhex(f[1], &dlen, 0);
			int rc;
			LIB(rc = elasticqueue_add(EQ, d));
			sec_rc(&obs, rc == 0);
			drv_scribble_free(d, dlen);
		} else if (strcmp(f[0], "del") == 0) {
			LIB(elasticqueue_delete(EQ));
			sec_str(&obs, "unit");
		} else if (strcmp(f[0], "len") == 0) {
			sec_str(&obs, "sz"); sec_u64(&obs, elasticqueue_getlen(EQ));
		} else if (strcmp(f[0], "get") == 0 && nf == 2) {
			uint8_t * p = elasticqueue_get(EQ, hexnum(f[1]));
			if (p == NULL) sec_str(&obs, "null");
			else { sec_str(&obs, "rec"); sec_hex(&obs, p, reclen); }
		} else if (strcmp(f[0], "set") == 0 && nf == 3) {
			size_t dlen; uint8_t * d = drv_unhex(f[2], &dlen, 0);
			uint8_t * p = elasticqueue_get(EQ, hexnum(f[1]));
			if (p != NULL) memcpy(p, d, dlen);
			sec_str(&obs, "unit");
			free(d);
		} else if (strcmp(f[0], "free") == 0) {
			LIB(elasticqueue_free(EQ));
			EQ = NULL;
			sec_str(&obs, "unit");
		} else
			sec_str(&obs, "bad-op");
		eq_state(EQ, reclen);
		sec_item(&cap); sec_str(&cap, "-");
		end_op();
	}
	finish();
	elasticqueue_free(EQ);
}

/* ------------------------------ sequential pointer map ------------------------------ */
static void
spm_state(struct seqptrmap * M, int64_t nadd)
{
	int64_t i;
	if (M == NULL) { sec_str(&obs, "@none"); return; }
	sec_str(&obs, "@"); sec_i64(&obs, seqptrmap_getmin(M)); sec_str(&obs, ":");
	for (i = -1; i <= nadd + 1; i++) {
		if (i > -1) sec_str(&obs, ",");
		sec_u64(&obs, (uint64_t)(uintptr_t)seqptrmap_get(M, i));
	}
}

static void
run_spm(char ** ops, int nops)
{
	struct seqptrmap * M = NULL;
	int64_t nadd = 0;
	char * f[4];
	int i;

	for (i = 0; i < nops; i++) {
		int nf = fields(ops[i], f, 4);
		int isinit = (strcmp(f[0], "init") == 0);
		sec_item(&obs);
		if ((M == NULL) != isinit) {
			sec_str(&obs, "noobj");
		} else if (isinit) {
			LIB(M = seqptrmap_init());
			sec_rc(&obs, M != NULL);
		} else if (strcmp(f[0], "add") == 0 && nf == 2) {
			int64_t r;
			LIB(r = seqptrmap_add(M, (void *)(uintptr_t)hexnum(f[1])));
			sec_str(&obs, "n"); sec_i64(&obs, r);
			if (r >= 0) nadd++;
		} else if (strcmp(f[0], "get") == 0 && nf == 2) {
			sec_str(&obs, "p");
			sec_u64(&obs, (uint64_t)(uintptr_t)seqptrmap_get(M, hexsnum(f[1])));
		} else if (strcmp(f[0], "min") == 0) {
			sec_str(&obs, "n"); sec_i64(&obs, seqptrmap_getmin(M));
		} else if (strcmp(f[0], "del") == 0 && nf == 2) {
			LIB(seqptrmap_delete(M, hexsnum(f[1])));
			sec_str(&obs, "unit");
		} else if (strcmp(f[0], "free") == 0) {
			LIB(seqptrmap_free(M));
			M = NULL;
			sec_str(&obs, "unit");
		} else
			sec_str(&obs, "bad-op");
		spm_state(M, nadd);
		sec_item(&cap); sec_str(&cap, "-");
		end_op();
	}
	finish();
	seqptrmap_free(M);
}

/* ------------------------------ object pool ------------------------------ */
struct obj { uint64_t a, b, c; };

MPOOL(p1, struct obj, 1);
MPOOL(p2, struct obj, 2);
MPOOL(p3, struct obj, 3);
MPOOL(p4, struct obj, 4);

static struct obj * p1_m(void) { return (mpool_p1_malloc()); }
static struct obj * p2_m(void) { return (mpool_p2_malloc()); }
static struct obj * p3_m(void) { return (mpool_p3_malloc()); }
static struct obj * p4_m(void) { return (mpool_p4_malloc()); }
static void p1_f(struct obj * p) { mpool_p1_free(p); }
static void p2_f(struct obj * p) { mpool_p2_free(p); }
static void p3_f(struct obj * p) { mpool_p3_free(p); }
static void p4_f(struct obj * p) { mpool_p4_free(p); }

static void
mp_out(struct sec * S, struct obj * p, int reg, int prefix)
{
	if (prefix) sec_str(S, "p");
	sec_u64(S, wrap_block_ordinal(p));
	if (reg) sec_str(S, "!");
	if (p != NULL) memset(p, 0x5a, sizeof(*p));	/* the client uses its object */
}

static void
run_mp(char ** ops, int nops)
{
	struct obj * (* mfn)(void);
	void (* ffn)(struct obj *);
	struct mpool * rec;
	struct obj ** held;
	size_t nheld = 0, capheld = 16, size, k;
	char * f[3];
	char b[64];
	int i, before;

	if (nops < 2) { printf("bad-case\n"); return; }
	size = hexnum(ops[0]);
	if (hexnum(ops[1]) != sizeof(struct obj)) { printf("bad-case olen\n"); return; }
	switch (size) {
	case 1: mfn = p1_m; ffn = p1_f; rec = &mpool_p1_rec; break;
	case 2: mfn = p2_m; ffn = p2_f; rec = &mpool_p2_rec; break;
	case 3: mfn = p3_m; ffn = p3_f; rec = &mpool_p3_rec; break;
	case 4: mfn = p4_m; ffn = p4_f; rec = &mpool_p4_rec; break;
	default: printf("bad-case size\n"); return;
	}
	held = malloc(capheld * sizeof(*held));
	for (i = 2; i < nops; i++) {
		int nf = fields(ops[i], f, 3);
		sec_item(&obs);
		if (strcmp(f[0], "m") == 0) {
			struct obj * p;
			before = wrap_exit_n;
			LIB(p = mfn());
			mp_out(&obs, p, wrap_exit_n != before, 1);
			if (p != NULL) {
				if (nheld == capheld) { capheld *= 2; held = realloc(held, capheld * sizeof(*held)); }
				held[nheld++] = p;
			}
		} else if (strcmp(f[0], "f") == 0 && nf == 2) {
			k = hexnum(f[1]);
			if (k < nheld) {
				struct obj * p = held[k];
				memmove(&held[k], &held[k + 1], (nheld - k - 1) * sizeof(*held));
				nheld--;
				LIB(ffn(p));
			}
			sec_str(&obs, "u");
		} else if (strcmp(f[0], "fn") == 0) {
			LIB(ffn(NULL));
			sec_str(&obs, "u");
		} else if (strcmp(f[0], "c") == 0 && nf == 2) {
			uint64_t n = hexnum(f[1]), j;
			sec_str(&obs, "c");
			for (j = 0; j < n; j++) {
				struct obj * p;
				before = wrap_exit_n;
				LIB(p = mfn());
				if (j) sec_str(&obs, ".");
				mp_out(&obs, p, wrap_exit_n != before, 0);
				if (p != NULL)
					LIB(ffn(p));
			}
		} else
			sec_str(&obs, "bad-op");
		sec_item(&cap); sec_str(&cap, "-");
		end_op();
	}
	/* process exit: run the handler the pool registered */
	for (i = 0; i < wrap_exit_n; i++)
		LIB(wrap_exit_fn[i]());
	sec_item(&obs);
	snprintf(b, sizeof(b), "exit%zu:%zu", wrap_live(), nheld);
	sec_str(&obs, b);
	sec_item(&cap); sec_str(&cap, "-");
	end_op();
	for (k = 0; k < nheld; k++)
		free(held[k]);
	free(held);
	finish();
	/* back to the state the MPOOL initialiser gives */
	rec->stacklen = 0; rec->allocsize = size; rec->allocs = rec->allocs_static;
	rec->nallocs = 0; rec->nempties = 0; rec->state = 0;
}

int
main(void)
{
	char * line;
	char ** tok = NULL;
	size_t captok = 0;

	setvbuf(stdout, NULL, _IOLBF, 0);
	while ((line = drv_getline()) != NULL) {
		size_t need = strlen(line) / 2 + 2;
		int n, mode = 0;
		uint64_t k = 0;

		if (need > captok) { captok = need * 2; tok = realloc(tok, captok * sizeof(char *)); }
		n = drv_split(line, tok, (int)captok);
		if (n < 2) { printf("bad-case\n"); continue; }
		if (tok[1][0] == 'o') { mode = 1; k = hexnum(tok[1] + 1); }
		else if (tok[1][0] == 'f') { mode = 2; k = hexnum(tok[1] + 1); }
		sec_reset(&obs); sec_reset(&cap); sec_reset(&alc);
		wrap_begin_case(mode, k);
		if (strcmp(tok[0], "ea") == 0) run_ea(tok + 2, n - 2);
		else if (strcmp(tok[0], "eq") == 0) run_eq(tok + 2, n - 2);
		else if (strcmp(tok[0], "spm") == 0) run_spm(tok + 2, n - 2);
		else if (strcmp(tok[0], "mp") == 0) run_mp(tok + 2, n - 2);
		else printf("bad-case\n");
	}
	free(tok);
	return (0);
}
