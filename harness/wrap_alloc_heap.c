/* --wrap=malloc,realloc,calloc,free interposer for drv_heap.c.
 * Only allocations made while wrap_on != 0 (i.e. inside a library call) are counted, logged,
 * tracked in the live table and possibly refused:  wrap_fail_at = k refuses the k-th request
 * (wrap_persist: and every later one).  free(NULL) is not logged. */
#include <stddef.h>
#include <stdint.h>
#include <stdio.h>
#include <string.h>
#include <errno.h>

void * __real_malloc(size_t);
void * __real_realloc(void *, size_t);
void * __real_calloc(size_t, size_t);
void __real_free(void *);

int wrap_on = 0;
unsigned long wrap_reqs = 0;      /* library allocation requests so far in this case */
unsigned long wrap_fail_at = 0;   /* 0 = never */
int wrap_persist = 0;
int wrap_bad = 0;                 /* free/realloc of a block we do not know, or table overflow */

#define LIVE_SLOTS (1u << 15)
static struct { void * p; size_t sz; } live[LIVE_SLOTS];
long wrap_nlive = 0;

/* event log of the current operation */
char wrap_log[1 << 16];
size_t wrap_loglen = 0;

static void logf_(const char * fmt, unsigned long a, unsigned long b, int ok)
{
	int n;
	if (wrap_loglen + 80 > sizeof(wrap_log)) return;
	if (wrap_loglen) wrap_log[wrap_loglen++] = ',';
	n = snprintf(wrap_log + wrap_loglen, 80, fmt, a, b);
	wrap_loglen += (size_t)n;
	if (ok >= 0) wrap_log[wrap_loglen++] = ok ? '+' : '-';
	wrap_log[wrap_loglen] = 0;
}

static unsigned slot_of(void * p)
{
	uintptr_t v = (uintptr_t)p;
	return (unsigned)((v >> 4) * 2654435761u) & (LIVE_SLOTS - 1);
}

static void live_add(void * p, size_t sz)
{
	unsigned s = slot_of(p), i;
	for (i = 0; i < LIVE_SLOTS; i++, s = (s + 1) & (LIVE_SLOTS - 1))
		if (live[s].p == NULL || live[s].p == (void *)1) {
			live[s].p = p; live[s].sz = sz; wrap_nlive++; return;
		}
	wrap_bad = 1;
}

/* returns 1 and the size if p is a live library block (and forgets it) */
static int live_del(void * p, size_t * sz)
{
	unsigned s = slot_of(p), i;
	for (i = 0; i < LIVE_SLOTS; i++, s = (s + 1) & (LIVE_SLOTS - 1)) {
		if (live[s].p == NULL) return 0;
		if (live[s].p == p) { *sz = live[s].sz; live[s].p = (void *)1; wrap_nlive--; return 1; }
	}
	return 0;
}

void wrap_reset(void)
{
	memset(live, 0, sizeof(live));
	wrap_nlive = 0; wrap_reqs = 0; wrap_fail_at = 0; wrap_persist = 0; wrap_bad = 0;
	wrap_loglen = 0; wrap_log[0] = 0;
}

static int refuse(void)
{
	wrap_reqs++;
	if (wrap_fail_at == 0) return 0;
	return wrap_persist ? (wrap_reqs >= wrap_fail_at) : (wrap_reqs == wrap_fail_at);
}

void * __wrap_malloc(size_t n)
{
	void * p;
	if (!wrap_on) return __real_malloc(n);
	if (refuse()) { logf_("m%lu%.0lu", n, 0, 0); errno = ENOMEM; return NULL; }
	wrap_on = 0; p = __real_malloc(n); wrap_on = 1;
	if (p) live_add(p, n);
	logf_("m%lu%.0lu", n, 0, p != NULL);
	return p;
}

void * __wrap_calloc(size_t a, size_t b)
{
	void * p;
	if (!wrap_on) return __real_calloc(a, b);
	if (refuse()) { logf_("m%lu%.0lu", a * b, 0, 0); errno = ENOMEM; return NULL; }
	wrap_on = 0; p = __real_calloc(a, b); wrap_on = 1;
	if (p) live_add(p, a * b);
	logf_("m%lu%.0lu", a * b, 0, p != NULL);
	return p;
}

void * __wrap_realloc(void * old, size_t n)
{
	void * p; size_t osz = 0;
	if (!wrap_on) return __real_realloc(old, n);
	if (old != NULL) {
		if (!live_del(old, &osz)) { wrap_bad = 1; }
		else live_add(old, osz);          /* still live until the real call succeeds */
	}
	if (refuse()) { logf_("r%lu>%lu", osz, n, 0); errno = ENOMEM; return NULL; }
	wrap_on = 0; p = __real_realloc(old, n); wrap_on = 1;
	if (p) {
		if (old != NULL) live_del(old, &osz);
		live_add(p, n);
	}
	logf_("r%lu>%lu", osz, n, p != NULL);
	return p;
}

void __wrap_free(void * p)
{
	size_t sz = 0;
	if (!wrap_on) { __real_free(p); return; }
	if (p == NULL) return;
	if (!live_del(p, &sz)) wrap_bad = 1;
	logf_("f%lu%.0lu", sz, 0, -1);
	wrap_on = 0; __real_free(p); wrap_on = 1;
}
