/* Driver for datastruct/ptrheap.c and datastruct/timerqueue.c (same case lines as model/heap_main.ml).
 *
 *   heap <fail> <op>...      fail: 0 | k (refuse the k-th library allocation) | k+ (k-th and all later)
 *     C<id>=<key>,...  create from array with record-cookie callback   c... without callback
 *     I / i            ptrheap_init with / without callback
 *     A<id>=<key>      add            M  deletemin (skipped when empty)      G  nothing (getmin only)
 *     D<id>            delete by handle              U<id>+<d>  key += d; increase by handle
 *     L<id>-<d>        key -= d; decrease by handle  T+<d>      key of the minimum += d; increasemin
 *   result token per op:  status:notes:min[:events]   status = ok | fail | skip
 *     notes = id@pos,... (every setreccookie call, in order); min = id of getmin or '-'
 *     events (only when fail != 0) = m<size>+/-, r<old>><new>+/-, f<size>
 *   last token: end[:events]:live=<n>:reqs=<n>
 *
 *   tq <fail> <op>...
 *     A<id>=<sec>.<usec>  add (ptr = the driver's entry <id>)    D<id>  delete
 *     U<id>=<sec>.<usec>  increase (skipped unless the new time is >= the old one)
 *     P<sec>.<usec>       getptr      G  nothing (getmin only)
 *   result token per op:  status:res:min[:events]  res = released id or '-' for P, else empty
 *     min = sec.usec of timerqueue_getmin or '-'
 */
#include <sys/time.h>
#include "drv_common.h"
#include "ptrheap.h"
#include "timerqueue.h"

extern int wrap_on, wrap_persist, wrap_bad;
extern unsigned long wrap_reqs, wrap_fail_at;
extern long wrap_nlive;
extern char wrap_log[];
extern size_t wrap_loglen;
void wrap_reset(void);

#define MAXID 70000
struct rec { long key; size_t rc; int live; int id; struct timeval tv; void * cookie; };
static struct rec * recs;
static int ctxmark;                 /* the cookie handed to ptrheap */
static int badcookie;

/* note log of the current op */
static char * nlog; static size_t nlen, ncap;
static void note(int id, size_t pos)
{
	if (nlen + 48 > ncap) { ncap = ncap ? 2 * ncap : 4096; nlog = realloc(nlog, ncap); }
	nlen += (size_t)sprintf(nlog + nlen, "%s%d@%zu", nlen ? "," : "", id, pos);
}

static int compar(void * cookie, const void * x, const void * y)
{
	const struct rec * a = x; const struct rec * b = y;
	if (cookie != &ctxmark) badcookie = 1;
	return (a->key > b->key) ? 5 : (a->key < b->key) ? -3 : 0;
}

static void setrc(void * cookie, void * ptr, size_t pos)
{
	struct rec * r = ptr;
	int save = wrap_on;
	if (cookie != &ctxmark) badcookie = 1;
	r->rc = pos;
	wrap_on = 0; note(r->id, pos); wrap_on = save;
}

static int failmode;   /* print events? */
static void begin_op(void) { nlen = 0; if (nlog) nlog[0] = 0; wrap_loglen = 0; wrap_log[0] = 0; }
static void put_events(void) { if (failmode) printf(":%s", wrap_log); }

static void set_fail(const char * t)
{
	size_t n = strlen(t);
	wrap_reset();
	wrap_fail_at = strtoul(t, NULL, 10);
	wrap_persist = (n > 0 && t[n-1] == '+');
	failmode = (wrap_fail_at != 0);
}

/* entering library code: errno holds junk from "earlier" (ptrheap.h: failures "set errno") */
#include <errno.h>
#define LIB_ON() do { errno = EDOM; wrap_on = 1; } while (0)

static void heap_min(struct ptrheap * H)
{
	struct rec * m;
	LIB_ON(); m = ptrheap_getmin(H); wrap_on = 0;
	if (m) printf("%d", m->id); else printf("-");
}

static void run_heap(char ** tok, int n)
{
	struct ptrheap * H = NULL; int i, started = 0, withcb = 0;
	set_fail(tok[1]);
	badcookie = 0;
	for (i = 0; i < MAXID; i++) recs[i].live = 0;
	for (i = 2; i < n; i++) {
		char * t = tok[i]; char op = t[0]; const char * status = "ok";
		if (i > 2) printf(" ");
		begin_op();
		if (op == 'C' || op == 'c' || op == 'I' || op == 'i') {
			size_t N = 0, cap = 16, j; void ** ptrs = malloc(cap * sizeof(void *)); char * p = t + 1;
			if (started) { printf("skip::-"); put_events(); free(ptrs); continue; }
			started = 1; withcb = (op == 'C' || op == 'I');
			while ((op == 'C' || op == 'c') && *p) {
				int id = (int)strtol(p, &p, 10); long key;
				p++; key = strtol(p, &p, 10); if (*p == ',') p++;
				recs[id].key = key; recs[id].rc = (size_t)-1; recs[id].id = id;
				if (N == cap) { cap *= 2; ptrs = realloc(ptrs, cap * sizeof(void *)); }
				ptrs[N++] = &recs[id];
			}
			{	/* exact-size array so that ASan sees an over-read of ptrs */
				void ** ex = malloc(N ? N * sizeof(void *) : 1);
				memcpy(ex, ptrs, N * sizeof(void *)); free(ptrs); ptrs = ex;
			}
			LIB_ON();
			if (op == 'C' || op == 'c')
				H = ptrheap_create(compar, withcb ? setrc : NULL, &ctxmark, N, ptrs);
			else
				H = ptrheap_init(compar, withcb ? setrc : NULL, &ctxmark);
			wrap_on = 0;
			if (H) for (j = 0; j < N; j++) ((struct rec *)ptrs[j])->live = 1;
			else status = "fail";
			drv_scribble_free(ptrs, N * sizeof(void *));	/* the array was an argument, not a loan */
		} else if (H == NULL) {
			printf("skip::-"); put_events(); continue;
		} else if (op == 'A') {
			char * p = t + 1; int id = (int)strtol(p, &p, 10); long key; int rc;
			p++; key = strtol(p, &p, 10);
			if (recs[id].live) { status = "skip"; }
			else {
				recs[id].key = key; recs[id].rc = (size_t)-1; recs[id].id = id;
				LIB_ON(); rc = ptrheap_add(H, &recs[id]); wrap_on = 0;
				if (rc == 0) recs[id].live = 1; else status = "fail";
			}
		} else if (op == 'M') {
			struct rec * m;
			LIB_ON(); m = ptrheap_getmin(H); wrap_on = 0;
			if (!m) status = "skip";
			else { LIB_ON(); ptrheap_deletemin(H); wrap_on = 0; m->live = 0; }
		} else if (op == 'D') {
			int id = atoi(t + 1);
			if (!withcb || !recs[id].live) status = "skip";
			else { LIB_ON(); ptrheap_delete(H, recs[id].rc); wrap_on = 0; recs[id].live = 0; }
		} else if (op == 'U') {
			char * p = t + 1; int id = (int)strtol(p, &p, 10); long d = strtol(p + 1, NULL, 10);
			if (!withcb || !recs[id].live) status = "skip";
			else { recs[id].key += d; LIB_ON(); ptrheap_increase(H, recs[id].rc); wrap_on = 0; }
		} else if (op == 'L') {
			char * p = t + 1; int id = (int)strtol(p, &p, 10); long d = strtol(p + 1, NULL, 10);
			if (!withcb || !recs[id].live) status = "skip";
			else { recs[id].key -= d; LIB_ON(); ptrheap_decrease(H, recs[id].rc); wrap_on = 0; }
		} else if (op == 'T') {
			long d = strtol(t + 2, NULL, 10); struct rec * m;
			LIB_ON(); m = ptrheap_getmin(H); wrap_on = 0;
			if (!m) status = "skip";
			else { m->key += d; LIB_ON(); ptrheap_increasemin(H); wrap_on = 0; }
		} else if (op == 'G') {
			;
		} else status = "skip";
		printf("%s:%s:", status, nlog ? nlog : "");
		if (H) heap_min(H); else printf("-");
		put_events();
	}
	begin_op();
	LIB_ON(); ptrheap_free(H); wrap_on = 0;
	printf("%send", n > 2 ? " " : ""); put_events();
	printf(":live=%ld:reqs=%lu%s%s\n", wrap_nlive, wrap_reqs, wrap_bad ? ":badfree" : "", badcookie ? ":badcookie" : "");
}

static void parse_tv(const char * s, struct timeval * tv)
{
	char * p;
	tv->tv_sec = strtol(s, &p, 10);
	tv->tv_usec = strtol(p + 1, NULL, 10);
}

static void tq_min(struct timerqueue * Q)
{
	const struct timeval * m;
	LIB_ON(); m = timerqueue_getmin(Q); wrap_on = 0;
	if (m) printf("%ld.%ld", (long)m->tv_sec, (long)m->tv_usec); else printf("-");
}

static void run_tq(char ** tok, int n)
{
	struct timerqueue * Q; int i;
	set_fail(tok[1]);
	for (i = 0; i < MAXID; i++) recs[i].live = 0;
	begin_op();
	LIB_ON(); Q = timerqueue_init(); wrap_on = 0;
	printf("%s::-", Q ? "ok" : "fail"); put_events();
	for (i = 2; i < n; i++) {
		char * t = tok[i]; char op = t[0]; const char * status = "ok"; char res[32] = "";
		printf(" ");
		begin_op();
		if (Q == NULL) { printf("skip::-"); put_events(); continue; }
		if (op == 'A') {
			char * p = t + 1; int id = (int)strtol(p, &p, 10); struct timeval * tv; void * c;
			if (recs[id].live) status = "skip";
			else {
				/* the timeval argument lives in its own exact-size block */
				tv = malloc(sizeof(struct timeval)); parse_tv(p + 1, tv);
				recs[id].id = id; recs[id].tv = *tv;
				LIB_ON(); c = timerqueue_add(Q, tv, &recs[id]); wrap_on = 0;
				drv_scribble_free(tv, sizeof(struct timeval));
				if (c) { recs[id].live = 1; recs[id].cookie = c; } else status = "fail";
			}
		} else if (op == 'D') {
			int id = atoi(t + 1);
			if (!recs[id].live) status = "skip";
			else { LIB_ON(); timerqueue_delete(Q, recs[id].cookie); wrap_on = 0; recs[id].live = 0; }
		} else if (op == 'U') {
			char * p = t + 1; int id = (int)strtol(p, &p, 10); struct timeval * tv = malloc(sizeof(struct timeval));
			parse_tv(p + 1, tv);
			if (!recs[id].live || tv->tv_sec < recs[id].tv.tv_sec ||
			    (tv->tv_sec == recs[id].tv.tv_sec && tv->tv_usec < recs[id].tv.tv_usec)) status = "skip";
			else { recs[id].tv = *tv; LIB_ON(); timerqueue_increase(Q, recs[id].cookie, tv); wrap_on = 0; }
			drv_scribble_free(tv, sizeof(struct timeval));
		} else if (op == 'P') {
			struct timeval * tv = malloc(sizeof(struct timeval)); struct rec * r;
			parse_tv(t + 1, tv);
			LIB_ON(); r = timerqueue_getptr(Q, tv); wrap_on = 0;
			drv_scribble_free(tv, sizeof(struct timeval));
			if (r == NULL) strcpy(res, "-");
			else if (r < recs || r >= recs + MAXID) strcpy(res, "badptr");
			else { sprintf(res, "%d", r->id); r->live = 0; }
		} else if (op == 'G') {
			;
		} else status = "skip";
		printf("%s:%s:", status, res);
		tq_min(Q);
		put_events();
	}
	begin_op();
	LIB_ON(); timerqueue_free(Q); wrap_on = 0;
	printf(" end"); put_events();
	printf(":live=%ld:reqs=%lu%s\n", wrap_nlive, wrap_reqs, wrap_bad ? ":badfree" : "");
}

int main(void)
{
	char * line; char ** tok; int maxtok = 1 << 20;
	setvbuf(stdout, NULL, _IOFBF, 1 << 16);
	recs = calloc(MAXID, sizeof(struct rec));
	tok = malloc(sizeof(char *) * (size_t)maxtok);
	while ((line = drv_getline()) != NULL) {
		int n = drv_split(line, tok, maxtok);
		if (n >= 2 && strcmp(tok[0], "heap") == 0) run_heap(tok, n);
		else if (n >= 2 && strcmp(tok[0], "tq") == 0) run_tq(tok, n);
		else printf("bad-case\n");
		fflush(stdout);
	}
	free(tok); free(recs); free(nlog);
	return 0;
}
