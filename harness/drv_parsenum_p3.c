#define SITES_PART 3
#include "drv_parsenum_part.c"
