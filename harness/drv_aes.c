/* Driver for crypto/crypto_aes*.c and crypto/crypto_aesctr*.c: same case lines as model/aes_main.ml.
 *
 *   path                      -> path <crypto_aes_can_use_intrinsics()> cpu=<cpusupport_x86_aesni() | -1>
 *   block <key> <blk>...      -> ok <ct>...     crypto_aes_key_expand / crypto_aes_encrypt_block / _free
 *   blockni <key> <blk>...    -> ok <ct>...     crypto_aes_key_expand_aesni / _encrypt_block_aesni / _free_aesni
 *                                               called directly (no self-test gate); "unsupported" if not built in
 *   ctr <tok>...              -> ok <out>...    see aes_main.ml for the tokens
 *   big <key> <nonce> <len1> <len2> <tail1>
 *                             -> ok <last tail1 bytes written by the first call> <the len2 bytes of the second>
 *                                one stream: ONE crypto_aesctr_stream call of len1 zero bytes, in place, on a
 *                                calloc block (len1 may exceed 2^32: the counters of one call are then
 *                                beyond 32 bits), then a call of len2 zero bytes; "nomem" if calloc fails
 *
 *   token J<pos> of a ctr script is NOT a library call: it writes stream->bytectr = pos (hex, multiple
 *   of 16) right after an init; with pblk[15] still 0xff the next cipherblock is generated from the
 *   fully re-encoded counter, so the object is a stream positioned at block pos/16.
 *
 * Data buffers are malloc blocks of exactly their size (ASan build); S = in place, s = separate
 * buffers.  Built with -DDRV_WIPE and --wrap=malloc,--wrap=free the same lines print, instead of
 * data, one event  free:<key|ctr>:<non-zero bytes>:<raw key found>  per block the library hands
 * back to the allocator (contents examined at the moment of free; size known from malloc).
 *
 * Built with -DDRV_SELFAIL and --wrap=malloc,--wrap=crypto_aes_key_expand_aesni,
 * --wrap=crypto_aes_encrypt_block_aesni,--wrap=crypto_aesctr_aesni_stream (AES-NI configuration only):
 *   drv <n> <k|q>     n = which allocation made INSIDE library calls is refused (0 = none), counted
 *                     from process start; k / q = the library's first use is a crypto_aes_key_expand /
 *                     a crypto_aes_can_use_intrinsics call.
 * Before reading stdin the driver performs that first use (allocations of the self-test included), then
 * PROBES which implementation each module selected - through the wrapped entry points of the AES-NI
 * code, which in probe mode only record that they were reached and return:
 *   sel can_use=<crypto_aes_can_use_intrinsics()> key=<crypto_aes_key_expand built an AES-NI object>
 *       block=<crypto_aes_encrypt_block went to the AES-NI code> stream16=<a 16-byte crypto_aesctr_stream
 *       call went to crypto_aesctr_aesni_stream> stream15=<a 15-byte call did> cpu=<cpusupport_x86_aesni()>
 *       refused=<allocations refused> knull=<key expansions that reported failure (retried once)>
 * then the case lines are answered as usual (wrappers passing through).  A crypto_aes_key_expand that
 * returns NULL is a reported failure: it is retried once.
 */
/* single cases of this driver may run over gigabytes (the > 2^32-byte stream, the very long messages) */
#define DRV_LINE_CPU_S 300
#include "drv_common.h"

#include <assert.h>

#include "cpusupport.h"
#include "crypto_aes.h"
#include "crypto_aes_aesni.h"
#include "crypto_aesctr.h"
#include "sysendian.h"

/* White box: the definition of struct crypto_aesctr, exactly as the library's translation units
 * see it (the file is meant to be #included; its static inline functions stay unused here). */
#include "crypto_aesctr_shared.c"

#define MAXKEYS 64

#ifdef DRV_WIPE
void * __real_malloc(size_t);
void __real_free(void *);

#define MAXTRACK 256
static struct track {
	void * p; size_t size; const char * kind; uint8_t secret[16]; int has_secret;
} tracked[MAXTRACK];
static const char * lib_kind = NULL;	/* non-NULL while inside an allocating library call */
static const uint8_t * lib_secret = NULL;
static char events[8192];
static size_t evlen = 0;

void *
__wrap_malloc(size_t n)
{
	void * p = __real_malloc(n);
	int i;

	if (p != NULL && lib_kind != NULL) {
		/* fresh heap memory is not zero in general: make that explicit */
		memset(p, 0xbe, n);
		for (i = 0; i < MAXTRACK; i++) {
			if (tracked[i].p == NULL) {
				tracked[i].p = p; tracked[i].size = n; tracked[i].kind = lib_kind;
				tracked[i].has_secret = (lib_secret != NULL);
				if (lib_secret) memcpy(tracked[i].secret, lib_secret, 16);
				break;
			}
		}
	}
	return (p);
}

void
__wrap_free(void * p)
{
	int i; size_t j, nz = 0; int hit = 0;

	if (p != NULL) {
		for (i = 0; i < MAXTRACK; i++) {
			if (tracked[i].p != p)
				continue;
			const uint8_t * b = p;
			for (j = 0; j < tracked[i].size; j++)
				nz += (b[j] != 0);
			if (tracked[i].has_secret)
				for (j = 0; j + 16 <= tracked[i].size; j++)
					if (memcmp(b + j, tracked[i].secret, 16) == 0) { hit = 1; break; }
			evlen += (size_t)snprintf(events + evlen, sizeof(events) - evlen, " free:%s:%zu:%d",
			    tracked[i].kind, nz, hit);
			tracked[i].p = NULL;
			break;
		}
	}
	__real_free(p);
}
#define LIB(kind, secret, call) do { lib_kind = (kind); lib_secret = (secret); call; lib_kind = NULL; lib_secret = NULL; } while (0)
#define NOFAIL(call) do { call; } while (0)
#elif defined(DRV_SELFAIL)
void * __real_malloc(size_t);
void * __real_crypto_aes_key_expand_aesni(const uint8_t *, size_t);
void __real_crypto_aes_encrypt_block_aesni(const uint8_t[16], uint8_t[16], const void *);
void __real_crypto_aesctr_aesni_stream(struct crypto_aesctr *, const uint8_t *, uint8_t *, size_t);

static int in_lib = 0;			/* inside an allocating library call */
static int refuse_all = 0;		/* inside crypto_aesctr_stream / crypto_aesctr_buf (void: cannot fail) */
static long lib_allocs = 0, fail_nth = 0;
static int refused = 0, knull = 0;
static int probing = 0;			/* wrapped AES-NI entry points record and return */
static int ni_expand = 0, ni_block = 0, ni_stream = 0;

void *
__wrap_malloc(size_t n)
{

	if (refuse_all) {	/* inside an operation that cannot fail: it has no business allocating */
		refused++;
		return (NULL);
	}
	if (in_lib && (++lib_allocs == fail_nth)) {
		refused++;
		return (NULL);
	}
	return (__real_malloc(n));
}

void *
__wrap_crypto_aes_key_expand_aesni(const uint8_t * key, size_t len)
{

	ni_expand++;
	return (__real_crypto_aes_key_expand_aesni(key, len));
}

void
__wrap_crypto_aes_encrypt_block_aesni(const uint8_t in[16], uint8_t out[16], const void * key)
{

	ni_block++;
	if (probing) {
		memset(out, 0, 16);
		return;
	}
	__real_crypto_aes_encrypt_block_aesni(in, out, key);
}

void
__wrap_crypto_aesctr_aesni_stream(struct crypto_aesctr * stream, const uint8_t * inbuf, uint8_t * outbuf, size_t buflen)
{

	ni_stream++;
	if (probing) {
		memset(outbuf, 0, buflen);
		return;
	}
	__real_crypto_aesctr_aesni_stream(stream, inbuf, outbuf, buflen);
}
#define LIB(kind, secret, call) do { in_lib++; call; in_lib--; } while (0)
/* crypto_aesctr_stream and crypto_aesctr_buf return nothing: they cannot report a failure, so they
 * must complete whatever the allocator says - every allocation attempted inside them is refused */
#define NOFAIL(call) do { refuse_all++; call; refuse_all--; } while (0)
#elif defined(DRV_MALLOC8)
/* An allocator whose blocks are 8-byte but not 16-byte aligned (what malloc guarantees where
 * max_align_t is 8 bytes; the library uses align_ptr.h for that reason): every block the LIBRARY
 * allocates (expanded keys, also the one of its AES-NI self-test, stream objects) sits at an address
 * that is 8 mod 16.  The driver's own blocks are left alone. */
void * __real_malloc(size_t);
void __real_free(void *);
static int in_lib = 0;
static void * m8[256];
static void * m8base[256];

void *
__wrap_malloc(size_t n)
{
	char * p; char * base; int i;

	if (!in_lib)
		return (__real_malloc(n));
	if ((base = __real_malloc(n + 32)) == NULL)
		return (NULL);
	p = base + 8 + (16 - ((uintptr_t)base & 15)) % 16;	/* a 16-aligned address, then 8 further */
	for (i = 0; i < 256; i++)
		if (m8[i] == NULL) { m8[i] = p; m8base[i] = base; return (p); }
	abort();
}

void
__wrap_free(void * p)
{
	int i;

	for (i = 0; p != NULL && i < 256; i++)
		if (m8[i] == p) { m8[i] = NULL; __real_free(m8base[i]); return; }
	__real_free(p);
}
#define LIB(kind, secret, call) do { in_lib++; call; in_lib--; } while (0)
#define NOFAIL(call) do { call; } while (0)
#else
#define LIB(kind, secret, call) do { call; } while (0)
#define NOFAIL(call) do { call; } while (0)
#endif

static void
emit(const uint8_t * p, size_t n)
{
#ifdef DRV_WIPE
	(void)p; (void)n;
#else
	putchar(' '); drv_puthex(p, n);
#endif
}

/* an input the library takes as `const`: after the call it must still hold what was passed in */
static uint8_t *
input_copy(const uint8_t * in, size_t len)
{
	uint8_t * c = malloc(len ? len : 1);
	memcpy(c, in, len);
	return (c);
}

static void
input_check(uint8_t * copy, const uint8_t * in, size_t len)
{
	if (memcmp(copy, in, len) != 0)
		printf(" input-modified");
	free(copy);
}

/* Stateless calls (one block, crypto_aesctr_buf) are made twice on the SAME buffers in the plain
 * builds: first with every input byte flipped (result discarded), then for real - a caller that
 * re-uses its buffers; whatever was remembered about "this address" is stale. */
#if defined(DRV_WIPE) || defined(DRV_SELFAIL)
#define DECOY(in, len, out, olen, call) do { } while (0)
#else
#define DECOY(in, len, out, olen, call) do { drv_flip(in, len); call; drv_flip(in, len); drv_junk(out, olen); } while (0)
#endif

static uint64_t
parse_nonce(const char * s)
{
	return ((uint64_t)strtoull(s, NULL, 16));
}

/* crypto_aes_key_expand; in the allocation-refusal build a reported failure (NULL) is retried once */
static struct crypto_aes_key *
expand(const uint8_t * key, size_t klen)
{
	struct crypto_aes_key * k = NULL;

	(void)key;	/* only used through the LIB macro of the wipe build */
	LIB("key", key, k = crypto_aes_key_expand(key, klen));
#ifdef DRV_SELFAIL
	if (k == NULL) {
		knull++;
		LIB("key", key, k = crypto_aes_key_expand(key, klen));
	}
#endif
	return (k);
}

#ifdef DRV_SELFAIL
/* first use of the library as asked for, then: which implementation did each module select? */
static void
first_use_and_probe(long nth, int trigger)
{
	static const uint8_t pk[32] = { 1, 2, 3, 4, 5, 6, 7, 8, 9, 10, 11, 12, 13, 14, 15, 16 };
	uint8_t in[16] = { 0 }, out[16];
	struct crypto_aes_key * k0 = NULL, * k;
	struct crypto_aesctr * s = NULL;
	int can_use, key_ni, block_ni, s16, s15;

	fail_nth = nth;
	if (trigger == 'q')
		LIB("sel", NULL, (void)crypto_aes_can_use_intrinsics());
	else
		k0 = expand(pk, 16);
	/* the choice is made; observe it */
	LIB("sel", NULL, can_use = crypto_aes_can_use_intrinsics());
	ni_expand = 0;
	k = expand(pk, 32);
	key_ni = (ni_expand > 0);
	probing = 1;
	ni_block = 0;
	crypto_aes_encrypt_block(in, out, k);
	block_ni = (ni_block > 0);
	LIB("ctr", NULL, s = crypto_aesctr_init(k, 1));
	if (s == NULL)
		LIB("ctr", NULL, s = crypto_aesctr_init(k, 1));
	ni_stream = 0;
	crypto_aesctr_stream(s, in, out, 16);
	s16 = (ni_stream > 0);
	crypto_aesctr_init2(s, NULL, 1);
	ni_stream = 0;
	crypto_aesctr_stream(s, in, out, 15);
	s15 = (ni_stream > 0);
	probing = 0;
	crypto_aesctr_free(s);
	crypto_aes_key_free(k);
	crypto_aes_key_free(k0);
	printf("sel can_use=%d key=%d block=%d stream16=%d stream15=%d cpu=%d refused=%d knull=%d\n",
	    can_use, key_ni, block_ni, s16, s15, cpusupport_x86_aesni(), refused, knull);
	fflush(stdout);
}
#endif

static void
do_block(char ** tok, int n, int direct)
{
	size_t klen; uint8_t * key = drv_unhex(tok[1], &klen, 0);
	int i;

	if (direct) {
#ifdef CPUSUPPORT_X86_AESNI
		void * k = NULL;
		if (!cpusupport_x86_aesni()) { printf("unsupported\n"); free(key); return; }
		LIB("key", key, k = crypto_aes_key_expand_aesni(key, klen));
		/* the unexpanded key is the caller's again once the expansion has returned */
		drv_scribble_free(key, klen); key = NULL;
		printf("ok");
		for (i = 2; i < n; i++) {
			size_t bl; uint8_t * in = drv_unhex(tok[i], &bl, 0); uint8_t * out = drv_outbuf(16);
			uint8_t * cp = input_copy(in, bl);
			crypto_aes_encrypt_block_aesni(in, out, k);
			emit(out, 16); input_check(cp, in, bl); free(in); free(out);
		}
		crypto_aes_key_free_aesni(k);
#else
		printf("unsupported\n"); free(key); return;
#endif
	} else {
		struct crypto_aes_key * k = expand(key, klen);
		/* crypto_aes.h: the key is expanded "into a structure"; the unexpanded bytes are the
		 * caller's again once the call has returned */
		drv_scribble_free(key, klen); key = NULL;
		printf("ok");
		for (i = 2; i < n; i++) {
			size_t bl; uint8_t * in = drv_unhex(tok[i], &bl, 0);
			if (i & 1) {	/* separate output block */
				uint8_t * out = drv_outbuf(16);
				uint8_t * cp = input_copy(in, bl);
				DECOY(in, bl, out, 16, crypto_aes_encrypt_block(in, out, k));
				crypto_aes_encrypt_block(in, out, k);
				emit(out, 16); input_check(cp, in, bl); free(out);
			} else {	/* in and out can overlap */
				crypto_aes_encrypt_block(in, in, k);
				emit(in, 16);
			}
			free(in);
		}
		crypto_aes_key_free(k);
	}
#ifdef DRV_WIPE
	fputs(events, stdout); evlen = 0; events[0] = 0;
#endif
	printf("\n");
	free(key);
}

static void
do_ctr(char ** tok, int n)
{
	struct crypto_aes_key * keys[MAXKEYS]; int nkeys = 0;
	struct crypto_aes_key * cur = NULL;
	struct crypto_aesctr * stream = NULL;
	int i;

	printf("ok");
	for (i = 1; i < n; i++) {
		char * t = tok[i]; char * arg = t + 1;
		switch (t[0]) {
		case 'K': {
			size_t klen; uint8_t * key = drv_unhex(arg, &klen, 0);
			if (nkeys == MAXKEYS) { printf(" too-many-keys"); free(key); break; }
			cur = expand(key, klen);
			keys[nkeys++] = cur;
			drv_scribble_free(key, klen);	/* the library must not depend on the caller's copy */
			break;
		}
		case 'A':
			if (stream) crypto_aesctr_free(stream);
			LIB("ctr", NULL, stream = crypto_aesctr_alloc());
			break;
		case 'I':
			if (stream) crypto_aesctr_free(stream);
			LIB("ctr", NULL, stream = crypto_aesctr_init(cur, parse_nonce(arg)));
			break;
		case 'N':
			crypto_aesctr_init2(stream, cur, parse_nonce(arg));
			break;
		case 'R':
			crypto_aesctr_init2(stream, NULL, parse_nonce(arg));
			break;
		case 'F':
			crypto_aesctr_free(stream); stream = NULL;
			break;
		case 'J':
			stream->bytectr = (uint64_t)strtoull(arg, NULL, 16);
			break;
		case 's': case 'S': {
			size_t len; uint8_t * in = drv_unhex(arg, &len, 0);
			if (t[0] == 'S') {
				NOFAIL(crypto_aesctr_stream(stream, in, in, len));
				emit(in, len);
			} else {
				uint8_t * out = drv_outbuf(len);
				uint8_t * cp = input_copy(in, len);
				NOFAIL(crypto_aesctr_stream(stream, in, out, len));
				emit(out, len); input_check(cp, in, len); free(out);
			}
			free(in);
			break;
		}
		case 'B': {
			char * colon = strchr(arg, ':'); size_t len; uint8_t * in; uint8_t * out;
			if (!colon) { printf(" bad-token"); break; }
			*colon = 0;
			in = drv_unhex(colon + 1, &len, 0); out = drv_outbuf(len);
			{ uint8_t * cp = input_copy(in, len);
			DECOY(in, len, out, len, crypto_aesctr_buf(cur, parse_nonce(arg), in, out, len));
			NOFAIL(crypto_aesctr_buf(cur, parse_nonce(arg), in, out, len));
			emit(out, len); input_check(cp, in, len); }
			free(in); free(out);
			break;
		}
		default:
			printf(" bad-token");
		}
	}
	if (stream) crypto_aesctr_free(stream);
	for (i = 0; i < nkeys; i++) crypto_aes_key_free(keys[i]);
#ifdef DRV_WIPE
	fputs(events, stdout); evlen = 0; events[0] = 0;
#endif
	printf("\n");
}

static void
do_big(char ** tok)
{
	size_t klen; uint8_t * key = drv_unhex(tok[1], &klen, 0);
	uint64_t nonce = parse_nonce(tok[2]);
	size_t len1 = (size_t)strtoull(tok[3], NULL, 10);
	size_t len2 = (size_t)strtoull(tok[4], NULL, 10);
	size_t tail1 = (size_t)strtoull(tok[5], NULL, 10);
	struct crypto_aes_key * k = expand(key, klen);
	struct crypto_aesctr * stream = NULL;
	uint8_t * buf = calloc(len1 ? len1 : 1, 1);
	uint8_t * in2 = calloc(len2 ? len2 : 1, 1);
	uint8_t * out2 = drv_outbuf(len2);

	drv_scribble_free(key, klen); key = NULL;	/* expanded above; the bytes are ours again */
	if (buf == NULL || in2 == NULL || out2 == NULL || tail1 > len1) {
		printf("nomem\n");
	} else {
		LIB("ctr", NULL, stream = crypto_aesctr_init(k, nonce));
		crypto_aesctr_stream(stream, buf, buf, len1);
		crypto_aesctr_stream(stream, in2, out2, len2);
		printf("ok");
		emit(buf + (len1 - tail1), tail1);
		emit(out2, len2);
		printf("\n");
		crypto_aesctr_free(stream);
	}
	free(buf); free(in2); free(out2);
	crypto_aes_key_free(k);
	free(key);
}

int
main(int argc, char ** argv)
{
	char * line; static char * tok[4096];
	int path;

	setvbuf(stdout, NULL, _IOLBF, 0);
#ifdef DRV_SELFAIL
	first_use_and_probe(argc > 1 ? strtol(argv[1], NULL, 10) : 0, argc > 2 ? argv[2][0] : 'k');
#else
	(void)argc; (void)argv;
#endif
	/* run the one-time implementation selection (and its self-test allocations) first */
	path = crypto_aes_can_use_intrinsics();
	while ((line = drv_getline()) != NULL) {
		int n = drv_split(line, tok, 4096);
		if (n == 1 && strcmp(tok[0], "path") == 0) {
#ifdef CPUSUPPORT_X86_AESNI
			printf("path %d cpu=%d\n", path, cpusupport_x86_aesni());
#else
			printf("path %d cpu=-1\n", path);
#endif
		} else if (n >= 2 && strcmp(tok[0], "block") == 0)
			do_block(tok, n, 0);
		else if (n >= 2 && strcmp(tok[0], "blockni") == 0)
			do_block(tok, n, 1);
		else if (n >= 1 && strcmp(tok[0], "ctr") == 0)
			do_ctr(tok, n);
		else if (n == 6 && strcmp(tok[0], "big") == 0)
			do_big(tok);
		else
			printf("bad-case\n");
	}
	return (0);
}
