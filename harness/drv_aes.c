/* Driver for crypto/crypto_aes*.c and crypto/crypto_aesctr*.c: same case lines as model/aes_main.ml.
 *
 *   path                      -> path <crypto_aes_can_use_intrinsics()> cpu=<cpusupport_x86_aesni() | -1>
 *   block <key> <blk>...      -> ok <ct>...     crypto_aes_key_expand / crypto_aes_encrypt_block / _free
 *   blockni <key> <blk>...    -> ok <ct>...     crypto_aes_key_expand_aesni / _encrypt_block_aesni / _free_aesni
 *                                               called directly (no self-test gate); "unsupported" if not built in
 *   ctr <tok>...              -> ok <out>...    see aes_main.ml for the tokens
 *
 *   token J<pos> of a ctr script is NOT a library call: it writes stream->bytectr = pos (hex, multiple
 *   of 16) right after an init; with pblk[15] still 0xff the next cipherblock is generated from the
 *   fully re-encoded counter, so the object is a stream positioned at block pos/16.
 *
 * Data buffers are malloc blocks of exactly their size (ASan build); S = in place, s = separate
 * buffers.  Built with -DDRV_WIPE and --wrap=malloc,--wrap=free the same lines print, instead of
 * data, one event  free:<key|ctr>:<non-zero bytes>:<raw key found>  per block the library hands
 * back to the allocator (contents examined at the moment of free; size known from malloc).
 */
#include "drv_common.h"

#include <assert.h>

#include "cpusupport.h"
#include "crypto_aes.h"
#include "crypto_aes_aesni.h"
#include "crypto_aesctr.h"
#include "sysendian.h"

/* White box: the definition of struct crypto_aesctr, exactly as the library's translation units
 * see it (the file is meant to be #included; its static inline functions stay unused here). */
#include "crypto_aesctr_shared.c"

#define MAXKEYS 64

#ifdef DRV_WIPE
void * __real_malloc(size_t);
void __real_free(void *);

#define MAXTRACK 256
static struct track {
	void * p; size_t size; const char * kind; uint8_t secret[16]; int has_secret;
} tracked[MAXTRACK];
static const char * lib_kind = NULL;	/* non-NULL while inside an allocating library call */
static const uint8_t * lib_secret = NULL;
static char events[8192];
static size_t evlen = 0;

void *
__wrap_malloc(size_t n)
{
	void * p = __real_malloc(n);
	int i;

	if (p != NULL && lib_kind != NULL) {
		/* fresh heap memory is not zero in general: make that explicit */
		memset(p, 0xbe, n);
		for (i = 0; i < MAXTRACK; i++) {
			if (tracked[i].p == NULL) {
				tracked[i].p = p; tracked[i].size = n; tracked[i].kind = lib_kind;
				tracked[i].has_secret = (lib_secret != NULL);
				if (lib_secret) memcpy(tracked[i].secret, lib_secret, 16);
				break;
			}
		}
	}
	return (p);
}

void
__wrap_free(void * p)
{
	int i; size_t j, nz = 0; int hit = 0;

	if (p != NULL) {
		for (i = 0; i < MAXTRACK; i++) {
			if (tracked[i].p != p)
				continue;
			const uint8_t * b = p;
			for (j = 0; j < tracked[i].size; j++)
				nz += (b[j] != 0);
			if (tracked[i].has_secret)
				for (j = 0; j + 16 <= tracked[i].size; j++)
					if (memcmp(b + j, tracked[i].secret, 16) == 0) { hit = 1; break; }
			evlen += (size_t)snprintf(events + evlen, sizeof(events) - evlen, " free:%s:%zu:%d",
			    tracked[i].kind, nz, hit);
			tracked[i].p = NULL;
			break;
		}
	}
	__real_free(p);
}
#define LIB(kind, secret, call) do { lib_kind = (kind); lib_secret = (secret); call; lib_kind = NULL; lib_secret = NULL; } while (0)
#else
#define LIB(kind, secret, call) do { call; } while (0)
#endif

static void
emit(const uint8_t * p, size_t n)
{
#ifdef DRV_WIPE
	(void)p; (void)n;
#else
	putchar(' '); drv_puthex(p, n);
#endif
}

static uint64_t
parse_nonce(const char * s)
{
	return ((uint64_t)strtoull(s, NULL, 16));
}

static void
do_block(char ** tok, int n, int direct)
{
	size_t klen; uint8_t * key = drv_unhex(tok[1], &klen, 0);
	int i;

	if (direct) {
#ifdef CPUSUPPORT_X86_AESNI
		void * k = NULL;
		if (!cpusupport_x86_aesni()) { printf("unsupported\n"); free(key); return; }
		LIB("key", key, k = crypto_aes_key_expand_aesni(key, klen));
		printf("ok");
		for (i = 2; i < n; i++) {
			size_t bl; uint8_t * in = drv_unhex(tok[i], &bl, 0); uint8_t * out = malloc(16);
			crypto_aes_encrypt_block_aesni(in, out, k);
			emit(out, 16); free(in); free(out);
		}
		crypto_aes_key_free_aesni(k);
#else
		printf("unsupported\n"); free(key); return;
#endif
	} else {
		struct crypto_aes_key * k = NULL;
		LIB("key", key, k = crypto_aes_key_expand(key, klen));
		printf("ok");
		for (i = 2; i < n; i++) {
			size_t bl; uint8_t * in = drv_unhex(tok[i], &bl, 0);
			if (i & 1) {	/* separate output block */
				uint8_t * out = malloc(16);
				crypto_aes_encrypt_block(in, out, k);
				emit(out, 16); free(out);
			} else {	/* in and out can overlap */
				crypto_aes_encrypt_block(in, in, k);
				emit(in, 16);
			}
			free(in);
		}
		crypto_aes_key_free(k);
	}
#ifdef DRV_WIPE
	fputs(events, stdout); evlen = 0; events[0] = 0;
#endif
	printf("\n");
	free(key);
}

static void
do_ctr(char ** tok, int n)
{
	struct crypto_aes_key * keys[MAXKEYS]; int nkeys = 0;
	struct crypto_aes_key * cur = NULL;
	struct crypto_aesctr * stream = NULL;
	int i;

	printf("ok");
	for (i = 1; i < n; i++) {
		char * t = tok[i]; char * arg = t + 1;
		switch (t[0]) {
		case 'K': {
			size_t klen; uint8_t * key = drv_unhex(arg, &klen, 0);
			if (nkeys == MAXKEYS) { printf(" too-many-keys"); free(key); break; }
			LIB("key", key, cur = crypto_aes_key_expand(key, klen));
			keys[nkeys++] = cur;
			free(key);	/* the library must not depend on the caller's copy */
			break;
		}
		case 'A':
			if (stream) crypto_aesctr_free(stream);
			LIB("ctr", NULL, stream = crypto_aesctr_alloc());
			break;
		case 'I':
			if (stream) crypto_aesctr_free(stream);
			LIB("ctr", NULL, stream = crypto_aesctr_init(cur, parse_nonce(arg)));
			break;
		case 'N':
			crypto_aesctr_init2(stream, cur, parse_nonce(arg));
			break;
		case 'R':
			crypto_aesctr_init2(stream, NULL, parse_nonce(arg));
			break;
		case 'F':
			crypto_aesctr_free(stream); stream = NULL;
			break;
		case 'J':
			stream->bytectr = (uint64_t)strtoull(arg, NULL, 16);
			break;
		case 's': case 'S': {
			size_t len; uint8_t * in = drv_unhex(arg, &len, 0);
			if (t[0] == 'S') {
				crypto_aesctr_stream(stream, in, in, len);
				emit(in, len);
			} else {
				uint8_t * out = malloc(len ? len : 1);
				crypto_aesctr_stream(stream, in, out, len);
				emit(out, len); free(out);
			}
			free(in);
			break;
		}
		case 'B': {
			char * colon = strchr(arg, ':'); size_t len; uint8_t * in; uint8_t * out;
			if (!colon) { printf(" bad-token"); break; }
			*colon = 0;
			in = drv_unhex(colon + 1, &len, 0); out = malloc(len ? len : 1);
			crypto_aesctr_buf(cur, parse_nonce(arg), in, out, len);
			emit(out, len); free(in); free(out);
			break;
		}
		default:
			printf(" bad-token");
		}
	}
	if (stream) crypto_aesctr_free(stream);
	for (i = 0; i < nkeys; i++) crypto_aes_key_free(keys[i]);
#ifdef DRV_WIPE
	fputs(events, stdout); evlen = 0; events[0] = 0;
#endif
	printf("\n");
}

int
main(void)
{
	char * line; static char * tok[4096];
	int path;

	setvbuf(stdout, NULL, _IOLBF, 0);
	/* run the one-time implementation selection (and its self-test allocations) first */
	path = crypto_aes_can_use_intrinsics();
	while ((line = drv_getline()) != NULL) {
		int n = drv_split(line, tok, 4096);
		if (n == 1 && strcmp(tok[0], "path") == 0) {
#ifdef CPUSUPPORT_X86_AESNI
			printf("path %d cpu=%d\n", path, cpusupport_x86_aesni());
#else
			printf("path %d cpu=-1\n", path);
#endif
		} else if (n >= 2 && strcmp(tok[0], "block") == 0)
			do_block(tok, n, 0);
		else if (n >= 2 && strcmp(tok[0], "blockni") == 0)
			do_block(tok, n, 1);
		else if (n >= 1 && strcmp(tok[0], "ctr") == 0)
			do_ctr(tok, n);
		else
			printf("bad-case\n");
	}
	return (0);
}
