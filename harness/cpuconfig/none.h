/* empty: portable paths only */
