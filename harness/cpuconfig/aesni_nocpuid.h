/* The AES-NI code is compiled in, but the run-time detection (cpusupport_x86_aesni.c needs
 * CPUSUPPORT_X86_CPUID to ask the CPU) answers "not present": the library built for AES-NI running
 * on a CPU without it - keys are OpenSSL AES_KEY objects handled by the software tail of
 * crypto_aes.c as compiled WITH CPUSUPPORT_X86_AESNI. */
#define CPUSUPPORT_X86_AESNI 1
