/* Driver for http/http.c on top of the real netbuf + network + events code of /repo.
 * The kernel is scripted by harness/wrap_http.c.  One case per line, one result line per case;
 * every case runs in a forked child so that an abort / sanitizer report / leak of one case is
 * attributed to that case and does not disturb the others.
 *
 * case:   http <method> <path> <hdrs> <reqbody> <sendchunk> <limit> <ending> <segs> <stream> [k=v ...]
 *           method path reqbody stream : hex ("-" = empty);  hdrs : name:value,... (hex) or "-"
 *           limit : hex size_t;  ending : e (EOF) | r (ECONNRESET) | s (stall, the request is then
 *           cancelled);  segs : decimal sizes a,b,c (0 = one EAGAIN; the unscripted rest arrives as
 *           one segment), "-" (one shot) or rK (every segment K bytes);  options: failat=K failfrom=K sockerr=N sendfail=K
 *           peer=<j>:<limit hex>:<stream hex>  a SECOND request (GET /b) is made right after the first and is alive at the
 *           same time on its own connection; its whole response <stream> arrives in one piece + EOF after the first
 *           connection's j-th data segment.  The result line then continues with " peer: req=.. ret=.. cbs=.. [cb=..] end=.."
 *           for the second request (same format; areas/http.py compares each half with that request ALONE).
 * result: req=<hex> ret=<ok|null> cbs=<n> [cb=null | cb=<status>/<hdrs>/<body>]* end=<done|cancelled|error|error-cancelled|stuck>
 *           | allocs=<n> refused=<n> live=<n> exit=<ok|code N|sig N>
 *         body : null (NULL, len 0) | toobig (NULL, len (size_t)-1) | <hex> | L<len>C<crc32> (len > 1024)
 *                | anything else spelled out (never expected) */
#include <sys/types.h>
#include <sys/socket.h>
#include <sys/wait.h>

#include <netinet/in.h>

#include <fcntl.h>
#include <unistd.h>

#define DRV_NO_LINE_WATCHDOG 1
#include "drv_common.h"
#include "wrap_http.h"

#include "events.h"
#include "http.h"
#include "sock.h"
#include "sock_internal.h"
#include "warnp.h"

/* ---- output assembled in memory (own allocations bypass the tracked allocator) ---- */
static char * out;
static size_t outlen, outcap;
static int outfd = 1;

static void
put(const char * s, size_t n)
{

	if (outlen + n + 1 > outcap) {
		outcap = (outlen + n + 1) * 2 + 256;
		if ((out = __real_realloc(out, outcap)) == NULL)
			abort();
	}
	memcpy(out + outlen, s, n);
	outlen += n;
	out[outlen] = 0;
}

static void
puts_(const char * s)
{

	put(s, strlen(s));
}

static void
puthex(const uint8_t * p, size_t n)
{
	static const char hx[] = "0123456789abcdef";
	char two[2];
	size_t i;

	if (n == 0) {
		puts_("-");
		return;
	}
	for (i = 0; i < n; i++) {
		two[0] = hx[p[i] >> 4];
		two[1] = hx[p[i] & 15];
		put(two, 2);
	}
}

static void
putnum(const char * pre, unsigned long long v)
{
	char tmp[64];

	snprintf(tmp, sizeof(tmp), "%s%llu", pre, v);
	puts_(tmp);
}

static void
flush_out(void)
{
	size_t off = 0;
	ssize_t w;

	while (off < outlen) {
		if ((w = write(outfd, out + off, outlen - off)) <= 0)
			break;
		off += (size_t)w;
	}
	outlen = 0;
}

static uint32_t
crc32_ieee(const uint8_t * p, size_t n)
{
	uint32_t c = 0xffffffffu;
	size_t i;
	int k;

	for (i = 0; i < n; i++) {
		c ^= p[i];
		for (k = 0; k < 8; k++)
			c = (c >> 1) ^ (0xedb88320u & (0u - (c & 1u)));
	}
	return (c ^ 0xffffffffu);
}

/* ---- the driver's own blocks: real allocator, kept reachable so LSan reports only the library ---- */
static void ** keep;
static size_t nkeep, keepcap;

static void *
keepalloc(size_t n)
{
	void * p = __real_malloc(n ? n : 1);

	if (p == NULL)
		abort();
	if (nkeep == keepcap) {
		keepcap = keepcap * 2 + 64;
		if ((keep = __real_realloc(keep, keepcap * sizeof(void *))) == NULL)
			abort();
	}
	keep[nkeep++] = p;
	return (p);
}

/* ---- hex decoding; exact-size blocks ---- */
static uint8_t *
unhex(const char * tok, size_t * len, size_t extra)
{
	size_t n = (strcmp(tok, "-") == 0) ? 0 : strlen(tok) / 2;
	uint8_t * p = keepalloc(n + extra);
	size_t i;

	for (i = 0; i < n; i++)
		p[i] = (uint8_t)(drv_hexval(tok[2*i]) * 16 + drv_hexval(tok[2*i+1]));
	for (i = n; i < n + extra; i++)
		p[i] = 0;
	*len = n;
	return (p);
}

/* ---- the user callback ---- */
struct cbctx {
	int peer;		/* this is the second request of the case: output goes to its own buffer */
	int ncalls;
	uint8_t * reqbody;	/* the request body lent to the library, until the callback is invoked */
	size_t reqbodylen;
};

/* http.h: "The provided request body buffer (if any) must remain valid until the callback is
 * invoked."  That is the ONLY thing the caller lends: the request structure, the method and path
 * strings, the header array and every header string are arguments of http_request() and are the
 * caller's again when it returns.  They are overwritten and released right then (the pointers
 * inside the overwritten structure no longer point anywhere); the body is overwritten and released
 * on entry to the callback, or after http_request_cancel() has returned.
 * (The address list is NOT touched: http.h is silent about it and http.c hands it to
 * network_connect(), whose contract keeps it borrowed until the connection attempt is over.) */
static void
scribble_release(void * p, size_t n)
{

	if (p == NULL)
		return;
	drv_scribble(p, n);
	__real_free(p);
}

static void
request_args_done(struct http_request * req, char * method, char * path, struct http_header * rh, size_t nh)
{
	size_t i;

	for (i = 0; i < nh; i++) {
		scribble_release((void *)(uintptr_t)rh[i].header, strlen(rh[i].header) + 1);
		scribble_release((void *)(uintptr_t)rh[i].value, strlen(rh[i].value) + 1);
	}
	scribble_release(rh, nh * sizeof(struct http_header));
	scribble_release(method, strlen(method) + 1);
	scribble_release(path, strlen(path) + 1);
	drv_scribble(req, sizeof(*req));
}

static void
request_body_done(struct cbctx * c)
{

	scribble_release(c->reqbody, c->reqbodylen);
	c->reqbody = NULL;
}

/* the second request's callback text is kept apart from the first one's */
static char * pout;
static size_t poutlen, poutcap;
static void
swap_out(void)
{
	char * o = out; size_t l = outlen, c = outcap;

	out = pout; outlen = poutlen; outcap = poutcap;
	pout = o; poutlen = l; poutcap = c;
}

static int callback1(void *, struct http_response *);

static int
callback(void * cookie, struct http_response * res)
{
	struct cbctx * c = cookie;
	int rc;

	if (c->peer) {
		wh.b_done = 1;
		swap_out();
	} else
		wh.a_done = 1;
	rc = callback1(cookie, res);
	if (c->peer)
		swap_out();
	return (rc);
}

static int
callback1(void * cookie, struct http_response * res)
{
	struct cbctx * c = cookie;
	size_t i;

	c->ncalls++;
	request_body_done(c);
	if (res == NULL) {
		puts_(" cb=null");
		return (0);
	}
	puts_(" cb=");
	{
		char tmp[32];
		snprintf(tmp, sizeof(tmp), "%d", res->status);
		puts_(tmp);
	}
	puts_("/");
	if (res->nheaders == 0)
		puts_("-");
	for (i = 0; i < res->nheaders; i++) {
		const char * h = res->headers[i].header;
		const char * v = res->headers[i].value;
		if (i)
			puts_(",");
		if (strlen(h))
			puthex((const uint8_t *)h, strlen(h));
		puts_(":");
		if (strlen(v))
			puthex((const uint8_t *)v, strlen(v));
	}
	puts_("/");
	if (res->body == NULL && res->bodylen == 0)
		puts_("null");
	else if (res->body == NULL && res->bodylen == (size_t)(-1))
		puts_("toobig");
	else if (res->body == NULL)
		putnum("nullptr-len", res->bodylen);
	else if (res->bodylen == (size_t)(-1))
		puts_("toobig-with-buffer");
	else if (res->bodylen == 0)
		puts_("len0-with-buffer");
	else if (res->bodylen <= 1024)
		puthex(res->body, res->bodylen);
	else {
		char tmp[64];
		snprintf(tmp, sizeof(tmp), "L%zuC%08x", res->bodylen,
		    (unsigned)crc32_ieee(res->body, res->bodylen));
		puts_(tmp);
	}
	/* The callback owns the body buffer. */
	free(res->body);
	return (0);
}

/* Registered before any library code runs, hence executed after the library's own atexit
 * handlers (mpool caches, events_network tables): whatever is still live now was lost. */
static void
report_live(void)
{

	puts_(" |");
	putnum(" allocs=", wh.nallocs);
	putnum(" refused=", wh.nrefused);
	putnum(" live=", wh.nlive);
	if (wh.overflow)
		puts_(" live-table-overflow");
	flush_out();
}

static size_t
parse_sizes(char * tok, size_t ** outp)
{
	size_t n = 0, cap = 1;
	size_t * v;
	char * p;

	for (p = tok; *p; p++)
		if (*p == ',')
			cap++;
	v = keepalloc(cap * sizeof(size_t));
	*outp = v;
	if (strcmp(tok, "-") == 0)
		return (0);
	p = tok;
	while (*p && n < cap) {
		v[n++] = (size_t)strtoull(p, &p, 10);
		if (*p == ',')
			p++;
	}
	return (n);
}

static void
run_case(char ** tok, int ntok)
{
	struct http_request req;
	struct http_header * rh = NULL;
	struct sock_addr sa;
	struct sockaddr_in sin;
	struct sock_addr * sas[2];
	struct cbctx ctx = {0, 0, NULL, 0};
	struct cbctx ctxb = {1, 0, NULL, 0};
	struct http_request reqb;
	void * HB = NULL;
	size_t limitb = 0;
	size_t l, nh = 0, i;
	char * method, * path;
	uint8_t * reqbody;
	size_t reqbodylen;
	size_t limit;
	size_t * segs;
	void * H;
	int rc = 0;
	int iter;
	int k;
	int use_https = 0;

	method = (char *)unhex(tok[1], &l, 1);
	path = (char *)unhex(tok[2], &l, 1);
	if (strcmp(tok[3], "-") != 0) {
		char * p = tok[3];
		size_t cnt = 1;
		for (p = tok[3]; *p; p++)
			if (*p == ',')
				cnt++;
		rh = keepalloc(cnt * sizeof(struct http_header));
		p = tok[3];
		while (p != NULL && nh < cnt) {
			char * next = strchr(p, ',');
			char * colon;
			if (next)
				*next++ = 0;
			colon = strchr(p, ':');
			if (colon == NULL)
				break;
			*colon++ = 0;
			rh[nh].header = (char *)unhex(*p ? p : "-", &l, 1);
			rh[nh].value = (char *)unhex(*colon ? colon : "-", &l, 1);
			nh++;
			p = next;
		}
	}
	reqbody = unhex(tok[4], &reqbodylen, 0);
	wh.sendchunk = (size_t)strtoull(tok[5], NULL, 10);
	limit = (size_t)strtoull(tok[6], NULL, 16);
	wh.ending = tok[7][0];
	if (tok[8][0] == 'r') {
		/* rK: every segment has K bytes */
		wh.segrep = (size_t)strtoull(tok[8] + 1, NULL, 10);
		wh.nsegs = 0;
		segs = NULL;
	} else
		wh.nsegs = parse_sizes(tok[8], &segs);
	wh.segs = segs;
	wh.stream = unhex(tok[9], &wh.streamlen, 0);
	for (k = 10; k < ntok; k++) {
		if (strncmp(tok[k], "failat=", 7) == 0)
			wh.fail_at = (size_t)strtoull(tok[k] + 7, NULL, 10);
		else if (strncmp(tok[k], "failfrom=", 9) == 0)
			wh.fail_from = (size_t)strtoull(tok[k] + 9, NULL, 10);
		else if (strncmp(tok[k], "sockerr=", 8) == 0)
			wh.sockerr = atoi(tok[k] + 8);
		else if (strncmp(tok[k], "sendfail=", 9) == 0)
			wh.sendfail_at = (size_t)strtoull(tok[k] + 9, NULL, 10);
		else if (strcmp(tok[k], "https=1") == 0)
			use_https = 1;
		else if (strncmp(tok[k], "peer=", 5) == 0) {
			char * p = tok[k] + 5;
			wh.b_after = (size_t)strtoull(p, &p, 10);
			if (*p == ':') {
				limitb = (size_t)strtoull(p + 1, &p, 16);
				if (*p == ':') {
					wh.bstream = unhex(p + 1, &wh.bstreamlen, 0);
					wh.has_b = 1;
				}
			}
		}
	}

	req.method = method;
	req.path = path;
	req.nheaders = nh;
	req.headers = rh;
	req.bodylen = reqbodylen;
	req.body = reqbodylen ? reqbody : NULL;
	ctx.reqbody = reqbody;
	ctx.reqbodylen = reqbodylen;

	memset(&sin, 0, sizeof(sin));
	sin.sin_family = AF_INET;
	sin.sin_port = htons(80);
	sin.sin_addr.s_addr = htonl(0x7f000001);
	sa.ai_family = AF_INET;
	sa.ai_socktype = SOCK_STREAM;
	sa.name = (struct sockaddr *)&sin;
	sa.namelen = sizeof(sin);
	sas[0] = &sa;
	sas[1] = NULL;

	atexit(report_live);
	wh.track = 1;

#ifdef DRV_HTTPS
	if (use_https) {
		/*
		 * The set-up of an HTTPS request (http.h: behaves like http_request, plus the
		 * host name to verify): the request is cancelled as soon as it exists, so no TLS
		 * is spoken; what is observed is the set-up and the release of everything it made.
		 */
		char * host = (char *)unhex("686f73742e6578616d706c65", &l, 1);	/* "host.example" */
		H = https_request(sas, &req, limit, callback, &ctx, host);
		request_args_done(&req, method, path, rh, nh);
		puts_("req=");
		puthex(wh.sent, wh.sentlen);
		if (H != NULL)
			http_request_cancel(H);
		request_body_done(&ctx);
		scribble_release(host, strlen(host) + 1);
		puts_(H == NULL ? " ret=null" : " ret=ok");
		putnum(" cbs=", (unsigned long long)ctx.ncalls);
		puts_(H == NULL ? " end=done" : " end=cancelled");
		return;
	}
#endif
	(void)use_https;
	H = http_request(sas, &req, limit, callback, &ctx);
	request_args_done(&req, method, path, rh, nh);
	if (H != NULL && wh.has_b) {
		char * mb = (char *)unhex("474554", &l, 1), * pb = (char *)unhex("2f62", &l, 1);	/* GET /b */

		reqb.method = mb; reqb.path = pb; reqb.nheaders = 0; reqb.headers = NULL; reqb.bodylen = 0; reqb.body = NULL;
		HB = http_request(sas, &reqb, limitb, callback, &ctxb);
		drv_scribble(&reqb, sizeof(reqb)); drv_scribble(mb, 4); drv_scribble(pb, 3);
	}
	if (H == NULL) {
		request_body_done(&ctx);
		/* nothing may be registered: one spin of the loop must find nothing to do */
		puts_("req=");
		puthex(wh.sent, wh.sentlen);
		puts_(" ret=null");
		putnum(" cbs=", (unsigned long long)ctx.ncalls);
		puts_(" end=done");
		return;
	}
	{
		/* callbacks append to the buffer while the loop runs: remember where the head goes */
		size_t mark = outlen;
		const char * end = "done";
		char * tail;
		size_t taillen;

		for (iter = 0; iter < 50000000; iter++) {
			if ((ctx.ncalls != 0 && (HB == NULL || ctxb.ncalls != 0)) || wh.stalled || rc != 0)
				break;
			rc = events_run();
		}
		if (ctx.ncalls == 0 && rc == 0 && wh.stalled) {
			http_request_cancel(H);
			request_body_done(&ctx);
			end = "cancelled";
		} else if (rc != 0) {
			/*
			 * A callback reported a fatal error to the event loop.  die() has freed
			 * the request; a failure below http.c (e.g. the writer could not start
			 * its next write) has not, and the owner releases it the normal way.
			 */
			end = "error";
			if (ctx.ncalls == 0 && wh_is_live(H)) {
				http_request_cancel(H);
				request_body_done(&ctx);
				end = "error-cancelled";
			}
		} else if (ctx.ncalls == 0)
			end = "stuck";

		/* Move what the callbacks wrote behind the head. */
		taillen = outlen - mark;
		tail = keepalloc(taillen + 1);
		if (taillen)
			memcpy(tail, out + mark, taillen);
		outlen = mark;
		puts_("req=");
		puthex(wh.sent, wh.sentlen);
		puts_(" ret=ok");
		putnum(" cbs=", (unsigned long long)ctx.ncalls);
		put(tail, taillen);
		puts_(" end=");
		puts_(end);
		if (wh.has_b) {
			const char * endb = "done";

			if (HB != NULL && ctxb.ncalls == 0) {
				endb = (rc != 0) ? "error" : "cancelled";
				if (rc == 0 || wh_is_live(HB))
					http_request_cancel(HB);
			}
			puts_(" peer: req=");
			puthex(wh.bsent, wh.bsentlen);
			puts_(HB == NULL ? " ret=null" : " ret=ok");
			putnum(" cbs=", (unsigned long long)ctxb.ncalls);
			if (poutlen)
				put(pout, poutlen);
			puts_(" end=");
			puts_(endb);
		}
	}
	(void)i;
}

int
main(void)
{
	char * line;
	char * tok[64];

	setvbuf(stdout, NULL, _IOLBF, 0);
	warnp_setprogname("drv_http");
	while ((line = drv_getline()) != NULL) {
		int n = drv_split(line, tok, 64);
		int pfd[2];
		pid_t pid;
		int st;
		char buf[65536];
		ssize_t r;

		if (n < 10 || strcmp(tok[0], "http") != 0) {
			printf("bad-case\n");
			continue;
		}
		fflush(stdout);
		if (pipe(pfd) != 0) {
			printf("pipe-failed\n");
			continue;
		}
		if ((pid = fork()) == 0) {
			close(pfd[0]);
			/* exit() would seek a redirected stdin back over the unread lines */
			close(0);
			(void)open("/dev/null", O_RDONLY);
			outfd = pfd[1];
			drv_case_limits();
			run_case(tok, n);
			flush_out();
			exit(0);
		}
		close(pfd[1]);
		{
			size_t got = 0;
			while ((r = read(pfd[0], buf, sizeof(buf))) > 0) {
				fwrite(buf, 1, (size_t)r, stdout);
				got += (size_t)r;
			}
			if (got == 0)
				printf("crashed |");
		}
		close(pfd[0]);
		if (waitpid(pid, &st, 0) != pid)
			printf(" exit=waitpid-failed\n");
		else if (WIFEXITED(st) && WEXITSTATUS(st) == 0)
			printf(" exit=ok\n");
		else if (WIFEXITED(st))
			printf(" exit=code%d\n", WEXITSTATUS(st));
		else if (WIFSIGNALED(st))
			printf(" exit=sig%d\n", WTERMSIG(st));
		else
			printf(" exit=unknown\n");
	}
	return (0);
}
