/* Driver for alg/crc32c.c (+ alg/crc32c_sse42.c): same case lines as model/crc_main.ml.
 *
 * crc32c.c is #included (not linked) so that the statics `hwaccel` and T0..T3 are visible: the
 * driver reports which implementation was selected and can dump the generated tables.
 *
 *   which                              -> hw=software | hw=x86_crc32
 *   tables                             -> ok <4*256 entries, 8 hex digits each, T0 first>
 *   crc <off> <hexdata> <cuts>         -> ok <4 crc bytes>      Init, Update per cut, Final
 *   upd <off> <state> <hexdata>        -> ok <state>            one CRC32C_Update from a given state
 *   sse42 <off> <state> <hexdata>      -> ok <state> | assert | n/a   direct CRC32C_Update_SSE42
 *
 * <off> = 0..15: the data is placed at p + off where p is 16-byte aligned and the allocation ends
 * exactly at the last data byte (so ASan sees any read past len).  <cuts> = comma separated
 * lengths of the successive Update calls ("-" = no call).  assert() failures are caught through
 * SIGABRT and reported as "assert".
 */
/* single cases of this driver may run over gigabytes (the > 2^32-byte stream, the very long messages) */
#define DRV_LINE_CPU_S 300
#include "drv_common.h"

#include <setjmp.h>
#include <signal.h>

#include "crc32c.c"

static sigjmp_buf abort_env;
static volatile sig_atomic_t abort_armed = 0;

static void
on_abort(int sig)
{

	(void)sig;
	if (abort_armed)
		siglongjmp(abort_env, 1);
	_exit(70);
}

/* Place len bytes at alignment off (mod 16) at the very end of a fresh allocation. */
static uint8_t *
place(const uint8_t * data, size_t len, size_t off, void ** base)
{
	void * p = NULL;

	if (posix_memalign(&p, 16, off + len ? off + len : 1) != 0 || p == NULL) {
		fprintf(stderr, "posix_memalign failed\n");
		exit(71);
	}
	if (((uintptr_t)p & 15) != 0) {
		fprintf(stderr, "allocation not 16-byte aligned\n");
		exit(72);
	}
	if (len > 0)
		memcpy((uint8_t *)p + off, data, len);
	*base = p;
	return ((uint8_t *)p + off);
}

int
main(void)
{
	char * line; char * tok[8];
	struct sigaction sa;

	setvbuf(stdout, NULL, _IOLBF, 0);
	memset(&sa, 0, sizeof(sa));
	sa.sa_handler = on_abort;
	sigemptyset(&sa.sa_mask);
	sa.sa_flags = SA_NODEFER;
	sigaction(SIGABRT, &sa, NULL);

	while ((line = drv_getline()) != NULL) {
		int n = drv_split(line, tok, 8);

		if (n == 1 && (strcmp(tok[0], "which") == 0 || strcmp(tok[0], "tables") == 0)) {
			/* CRC32C_Init runs init(), whose assert may fire */
			CRC32C_CTX ctx;
			int aborted = 0;

			abort_armed = 1;
			if (sigsetjmp(abort_env, 1) == 0)
				CRC32C_Init(&ctx);
			else
				aborted = 1;
			abort_armed = 0;
			if (aborted) {
				printf("assert\n");
				continue;
			}
		}
		if (n == 1 && strcmp(tok[0], "which") == 0) {
#ifdef HWACCEL
			if (hwaccel == HW_SOFTWARE)
				printf("hw=software\n");
#if defined(CPUSUPPORT_X86_SSE42)
			else if (hwaccel == HW_X86_CRC32)
#ifdef CPUSUPPORT_X86_SSE42_64
				printf("hw=x86_crc32\n");
#else
				printf("hw=x86_crc32_32\n");
#endif
#endif
			else
				printf("hw=other\n");
#else
			printf("hw=software\n");
#endif
		} else if (n == 1 && strcmp(tok[0], "tables") == 0) {
			size_t i;

			printf("ok ");
			for (i = 0; i < 256; i++) printf("%08x", (unsigned)T0[i]);
			for (i = 0; i < 256; i++) printf("%08x", (unsigned)T1[i]);
			for (i = 0; i < 256; i++) printf("%08x", (unsigned)T2[i]);
			for (i = 0; i < 256; i++) printf("%08x", (unsigned)T3[i]);
			printf("\n");
		} else if (n == 4 && strcmp(tok[0], "crc") == 0) {
			size_t off = (size_t)strtoull(tok[1], NULL, 10) & 15;
			size_t len, pos = 0; int bad = 0;
			uint8_t * data = drv_unhex(tok[2], &len, 0);
			void * base; uint8_t * buf = place(data, len, off, &base);
			CRC32C_CTX ctx; uint8_t cbuf[4];
			char * p = tok[3];

			/* the context and the output start as junk; the bytes an Update has consumed are
			 * the caller's again when it returns, and the caller overwrites them */
			memset(&ctx, 0xAA, sizeof(ctx)); drv_junk(cbuf, 4);
			abort_armed = 1;
			if (sigsetjmp(abort_env, 1) == 0) {
				CRC32C_Init(&ctx);
				if (strcmp(p, "-") != 0) {
					while (*p) {
						size_t l = (size_t)strtoull(p, &p, 10);

						if (*p == ',') p++;
						if (l > len - pos) { bad = 1; break; }
						CRC32C_Update(&ctx, buf + pos, l);
						drv_scribble(buf + pos, l);
						pos += l;
					}
				}
				abort_armed = 0;
				if (bad || pos != len)
					printf("bad-case\n");
				else {
					CRC32C_Final(cbuf, &ctx);
					printf("ok "); drv_puthex(cbuf, 4); printf("\n");
				}
			} else {
				abort_armed = 0;
				printf("assert\n");
			}
			free(base); free(data);
		} else if (n == 4 && (strcmp(tok[0], "upd") == 0 || strcmp(tok[0], "sse42") == 0)) {
			size_t off = (size_t)strtoull(tok[1], NULL, 10) & 15;
			uint32_t st = (uint32_t)strtoul(tok[2], NULL, 16);
			size_t len;
			uint8_t * data = drv_unhex(tok[3], &len, 0);
			void * base; uint8_t * buf = place(data, len, off, &base);
			CRC32C_CTX ctx;

			memset(&ctx, 0xAA, sizeof(ctx));
			abort_armed = 1;
			if (sigsetjmp(abort_env, 1) == 0) {
				CRC32C_Init(&ctx);
				ctx.state = st;
				if (tok[0][0] == 'u') {
					CRC32C_Update(&ctx, buf, len);
					abort_armed = 0;
					printf("ok %08x\n", (unsigned)ctx.state);
				} else {
#if defined(CPUSUPPORT_X86_SSE42)
					st = CRC32C_Update_SSE42(st, buf, len);
					abort_armed = 0;
					printf("ok %08x\n", (unsigned)st);
#else
					abort_armed = 0;
					printf("n/a\n");
#endif
				}
			} else {
				abort_armed = 0;
				printf("assert\n");
			}
			free(base); free(data);
		} else
			printf("bad-case\n");
	}
	return 0;
}
