#define SITES_PART 2
#include "drv_parsenum_part.c"
