/* Driver for crypto/crypto_dh.c (+ crypto_dh_group14.c, OpenSSL), C10 and C20-M3.
 * crypto_entropy_read is NOT linked from the repository: the definition below is a scripted
 * source (queue of 32-byte answers or failures set by each case line).
 *
 * C10 case lines (results: "ok <hex>" | "err" | "rc <n>"):
 *   genpub   <priv32> <blind32|fail>
 *   compute  <pub256> <priv32> <blind32|fail>
 *   generate <priv32|fail> <blind32|fail>          -> ok <pub> <priv>
 *   sanity   <pub256>
 *   rfcprime                                       -> OpenSSL's own RFC 3526 group-14 prime
 * Output buffers are exact-size malloc blocks pre-filled with 0xaa.
 *
 * In the -DDRV_DH_WRAP build also (C10, exponent split):
 *   xgenpub / xcompute ...  as above, result "ok <hex> e=<e1>,<e2>" with the two exponents that
 *   crypto_dh.c handed to BN_mod_exp (hex, "n" prefix when negative)
 *
 * C20 case lines (only in the -DDRV_DH_WRAP build, which is linked with --wrap for the BN_* calls
 * made by crypto_dh.c and installs OpenSSL memory hooks):
 *   wipe genpub  <priv32> <blind32> <k>
 *   wipe compute <pub256> <priv32> <blind32> <k>
 * k = index (from 0) of the fallible step (OpenSSL call or entropy read, in program order) that is
 * made to fail; -1 = none.  Result: "rc=<rc> ev=<events> leak=<0|1> live=<n>": events are
 * A<i> (bignum i allocated), C<i> (BN_clear_free), F<i> (BN_free), X+ / X- (BN_CTX new / free);
 * leak=1 if any block handed to OpenSSL's free hook during a BN_free/BN_clear_free/BN_CTX_free
 * issued by crypto_dh.c still contained an 8-byte limb of priv, blinding or priv-blinding;
 * live = OpenSSL allocations outstanding after the call minus before. */
#include "drv_common.h"

#include <openssl/bn.h>
#include <openssl/crypto.h>
#include <openssl/err.h>

#include "crypto_dh.h"
#include "crypto_entropy.h"
#include "warnp.h"

/* ---- scripted entropy source ---- */
#define MAXENT 4
static struct { int fail; uint8_t data[64]; size_t len; } ent_q[MAXENT];
static int ent_n = 0, ent_pos = 0;

#ifdef DRV_DH_WRAP
static int step_fails(void);
#endif

/* ---- a second operation in progress at the same time (re-entry) ----
 * The documented interface keeps nothing between calls: everything an operation needs lives in
 * its arguments and its own locals, so two operations may be under way at once (two parties in
 * two threads).  The single-threaded equivalent: while the OUTER operation of a case waits for
 * its nest_at-th entropy read, this entropy source (which stands for the application's
 * crypto_entropy_read) performs a complete crypto_dh_generate_pub for ANOTHER private value and
 * compares it with what the same call returned when it ran alone, before the outer operation
 * began.  Then the outer operation goes on and its result is compared with the model as always.
 * Whether and where this happens is a function of the case text (nest_prepare). */
static int ent_reads = 0;	/* reads made by the outer operation so far */
static int ent_depth = 0;	/* > 0: inside the nested operation */
static int nest_at = -1;	/* the outer read (from 0) during which the other operation runs */
static int nest_bad = 0;
static int nest_rc;
static uint8_t nest_priv[CRYPTO_DH_PRIVLEN], nest_blind[32], nest_expect[CRYPTO_DH_PUBLEN];

static int
nest_run(uint8_t out[CRYPTO_DH_PUBLEN])
{
	int rc;

	ent_depth++;
	rc = crypto_dh_generate_pub(out, nest_priv);
	ent_depth--;
	return (rc);
}

static void
nest_prepare(uint32_t h, int nreads)
{
	size_t i;

	nest_at = -1; nest_bad = 0;
	if (nreads <= 0 || (h & 0x18) == 0)	/* a quarter of the cases stay as they were */
		return;
	for (i = 0; i < 32; i++) {
		h = h * 1103515245u + 12345u; nest_priv[i] = (uint8_t)(h >> 16);
		h = h * 1103515245u + 12345u; nest_blind[i] = (uint8_t)(h >> 16);
	}
	if ((h & 0x300) == 0)
		memset(nest_priv, (h & 0x400) ? 0xff : 0, 32);
	drv_junk(nest_expect, CRYPTO_DH_PUBLEN);
	nest_rc = nest_run(nest_expect);	/* alone */
	/* crypto_dh_generate reads twice (private value, then blinding): mostly the second */
	nest_at = (nreads > 1 && ((h >> 12) & 3)) ? 1 : 0;
}

/* precedes the result of the outer operation on its output line */
static void
nest_report(void)
{
	if (nest_bad)
		printf("!other-operation-disturbed ");
}

static void
nest_now(void)
{
	uint8_t * out = malloc(CRYPTO_DH_PUBLEN);
	int rc;

	drv_junk(out, CRYPTO_DH_PUBLEN);
	rc = nest_run(out);
	if (rc != nest_rc || (rc == 0 && memcmp(out, nest_expect, CRYPTO_DH_PUBLEN) != 0))
		nest_bad = 1;
	drv_scribble_free(out, CRYPTO_DH_PUBLEN);
}

int
crypto_entropy_read(uint8_t * buf, size_t buflen)
{
	size_t i;

	if (ent_depth > 0) {
		/* the nested operation's own blinding */
		for (i = 0; i < buflen; i++)
			buf[i] = nest_blind[i % 32];
		return (0);
	}
	if (ent_reads++ == nest_at)
		nest_now();
#ifdef DRV_DH_WRAP
	if (step_fails())
		return (-1);
#endif
	if (ent_pos >= ent_n || ent_q[ent_pos].fail) {
		ent_pos++;
		/* a failed read leaves unspecified bytes behind, not the caller's old ones */
		drv_junk(buf, buflen);
		return (-1);
	}
	for (i = 0; i < buflen; i++)
		buf[i] = (i < ent_q[ent_pos].len) ? ent_q[ent_pos].data[i] : 0;
	ent_pos++;
	return (0);
}

static void
ent_reset(void)
{
	ent_n = ent_pos = 0;
	ent_reads = 0;
}

static void
ent_push(const char * tok)
{
	if (ent_n >= MAXENT)
		return;
	if (strcmp(tok, "fail") == 0) {
		ent_q[ent_n].fail = 1;
		ent_q[ent_n].len = 0;
	} else {
		size_t len; uint8_t * p = drv_unhex(tok, &len, 0);
		if (len > 64) len = 64;
		ent_q[ent_n].fail = 0;
		memcpy(ent_q[ent_n].data, p, len);
		ent_q[ent_n].len = len;
		free(p);
	}
	ent_n++;
}

static uint8_t *
outbuf(size_t n)
{
	uint8_t * p = malloc(n);
	memset(p, 0xaa, n);
	return (p);
}

#ifdef DRV_DH_WRAP
/* ================= C20: failure injection, release events, memory scanning ================= */
static int fail_at = -1;	/* which fallible step fails */
static int step_no = 0;
static char evlog[1024];
static size_t evlen = 0;
static const void * ids[64];
static int nids = 0;
static int in_release = 0;	/* inside a BN_free / BN_clear_free / BN_CTX_free issued by crypto_dh.c */
static int scanning = 0;
static int leak = 0;
static long live = 0;
static uint8_t pats[12][32];	/* 3 secrets x 4 byte orders */
static int npats = 0;

static int
step_fails(void)
{
	return (step_no++ == fail_at);
}

static void
ev(const char * fmt, int id)
{
	if (evlen + 16 < sizeof(evlog))
		evlen += (size_t)snprintf(evlog + evlen, sizeof(evlog) - evlen, fmt, id);
}

static int
id_of(const void * p)
{
	int i;
	for (i = nids - 1; i >= 0; i--)
		if (ids[i] == p) return (i);
	return (99);
}

static void
new_id(const void * p)
{
	if (nids < 64) {
		ids[nids] = p;
		ev(nids ? ",A%d" : "A%d", nids);
		nids++;
	}
}

/* --- OpenSSL memory hooks: a 16-byte header in front of every block remembers its size --- */
static void *
hook_malloc(size_t n, const char * f, int l)
{
	uint8_t * p;
	(void)f; (void)l;
	if ((p = malloc(n + 16)) == NULL)
		return (NULL);
	memcpy(p, &n, sizeof(n));
	live++;
	return (p + 16);
}

static int
interesting(const uint8_t * limb)
{
	/* a limb is worth searching for only if it is not a trivial pattern */
	int i, distinct = 0; uint8_t seen[8];
	for (i = 0; i < 8; i++) {
		int j, dup = 0;
		for (j = 0; j < distinct; j++) if (seen[j] == limb[i]) dup = 1;
		if (!dup) seen[distinct++] = limb[i];
	}
	return (distinct >= 5);
}

static void
scan(const uint8_t * blk, size_t n)
{
	int p, k; size_t i;
	if (!scanning || !in_release || n < 8)
		return;
	for (p = 0; p < npats; p++)
		for (k = 0; k < 4; k++) {
			const uint8_t * limb = &pats[p][8 * k];
			if (!interesting(limb)) continue;
			for (i = 0; i + 8 <= n; i++)
				if (memcmp(blk + i, limb, 8) == 0) { leak = 1; return; }
		}
}

static void
hook_free(void * q, const char * f, int l)
{
	uint8_t * p; size_t n;
	(void)f; (void)l;
	if (q == NULL) return;
	p = (uint8_t *)q - 16;
	memcpy(&n, p, sizeof(n));
	scan((uint8_t *)q, n);
	live--;
	free(p);
}

static void *
hook_realloc(void * q, size_t n, const char * f, int l)
{
	void * r; size_t old;
	if (q == NULL) return (hook_malloc(n, f, l));
	if (n == 0) { hook_free(q, f, l); return (NULL); }
	memcpy(&old, (uint8_t *)q - 16, sizeof(old));
	if ((r = hook_malloc(n, f, l)) == NULL) return (NULL);
	memcpy(r, q, old < n ? old : n);
	hook_free(q, f, l);
	return (r);
}

/* --- wrappers around the BN_* calls made by crypto_dh.c --- */
BIGNUM * __real_BN_bin2bn(const unsigned char *, int, BIGNUM *);
BIGNUM * __real_BN_new(void);
BN_CTX * __real_BN_CTX_new(void);
int __real_BN_add(BIGNUM *, const BIGNUM *, const BIGNUM *);
int __real_BN_sub(BIGNUM *, const BIGNUM *, const BIGNUM *);
int __real_BN_set_word(BIGNUM *, BN_ULONG);
int __real_BN_mod_exp(BIGNUM *, const BIGNUM *, const BIGNUM *, const BIGNUM *, BN_CTX *);
int __real_BN_mod_mul(BIGNUM *, const BIGNUM *, const BIGNUM *, const BIGNUM *, BN_CTX *);
void __real_BN_free(BIGNUM *);
void __real_BN_clear_free(BIGNUM *);
void __real_BN_CTX_free(BN_CTX *);

BIGNUM *
__wrap_BN_bin2bn(const unsigned char * s, int len, BIGNUM * ret)
{
	BIGNUM * r;
	if (step_fails()) return (NULL);
	r = __real_BN_bin2bn(s, len, ret);
	if (r != NULL && ret == NULL) new_id(r);
	return (r);
}

BIGNUM *
__wrap_BN_new(void)
{
	BIGNUM * r;
	if (step_fails()) return (NULL);
	if ((r = __real_BN_new()) != NULL) new_id(r);
	return (r);
}

BN_CTX *
__wrap_BN_CTX_new(void)
{
	BN_CTX * c;
	if (step_fails()) return (NULL);
	if ((c = __real_BN_CTX_new()) != NULL) ev(",X+%.0d", 0);
	return (c);
}

int __wrap_BN_add(BIGNUM * r, const BIGNUM * a, const BIGNUM * b)
{ return (step_fails() ? 0 : __real_BN_add(r, a, b)); }
int __wrap_BN_sub(BIGNUM * r, const BIGNUM * a, const BIGNUM * b)
{ return (step_fails() ? 0 : __real_BN_sub(r, a, b)); }
int __wrap_BN_set_word(BIGNUM * a, BN_ULONG w)
{ return (step_fails() ? 0 : __real_BN_set_word(a, w)); }
/* the exponents handed to BN_mod_exp during the current call, for the x* case lines */
static char explog[512];
static size_t explen = 0;

static void
log_exponent(const BIGNUM * p)
{
	uint8_t buf[128]; int n = BN_num_bytes(p), i;
	if (n > 100 || explen + 2 * (size_t)n + 8 > sizeof(explog)) return;
	{ char sep = explen ? ',' : '='; explog[explen++] = sep; }
	if (BN_is_negative(p)) explog[explen++] = 'n';
	BN_bn2bin(p, buf);
	if (n == 0) explog[explen++] = '-';
	for (i = 0; i < n; i++)
		explen += (size_t)snprintf(explog + explen, 3, "%02x", buf[i]);
	explog[explen] = 0;
}

int __wrap_BN_mod_exp(BIGNUM * r, const BIGNUM * a, const BIGNUM * p, const BIGNUM * m, BN_CTX * c)
{
	if (step_fails()) return (0);
	log_exponent(p);
	return (__real_BN_mod_exp(r, a, p, m, c));
}
int __wrap_BN_mod_mul(BIGNUM * r, const BIGNUM * a, const BIGNUM * b, const BIGNUM * m, BN_CTX * c)
{ return (step_fails() ? 0 : __real_BN_mod_mul(r, a, b, m, c)); }

void
__wrap_BN_free(BIGNUM * a)
{
	ev(",F%d", id_of(a));
	in_release++; __real_BN_free(a); in_release--;
}

void
__wrap_BN_clear_free(BIGNUM * a)
{
	ev(",C%d", id_of(a));
	in_release++; __real_BN_clear_free(a); in_release--;
}

void
__wrap_BN_CTX_free(BN_CTX * c)
{
	ev(",X-%.0d", 0);
	in_release++; __real_BN_CTX_free(c); in_release--;
}

static void
set_patterns(const uint8_t * priv, const uint8_t * blind)
{
	uint8_t diff[32]; const uint8_t * src[3]; int s, i, borrow = 0;

	/* (priv - blinding) mod 2^256, big-endian: the low 256 bits of priv_blinded */
	for (i = 31; i >= 0; i--) {
		int d = (int)priv[i] - (int)blind[i] - borrow;
		borrow = d < 0; diff[i] = (uint8_t)(d & 0xff);
	}
	src[0] = priv; src[1] = blind; src[2] = diff;
	npats = 0;
	for (s = 0; s < 3; s++) {
		for (i = 0; i < 32; i++) {
			pats[npats][i] = src[s][i];				/* big-endian bytes */
			pats[npats + 1][i] = src[s][31 - i];			/* little-endian bytes = LE limbs */
			pats[npats + 2][i] = src[s][8 * (3 - i / 8) + i % 8];	/* limbs reversed, bytes BE */
			pats[npats + 3][i] = src[s][8 * (i / 8) + 7 - i % 8];	/* limbs in order, bytes LE */
		}
		npats += 4;
	}
}

static void
wipe_case(int n, char ** tok)
{
	/* tok: wipe genpub priv blind k | wipe compute pub priv blind k */
	int compute = (strcmp(tok[1], "compute") == 0);
	size_t l; uint8_t * pub = NULL, * priv, * blind, * out; int rc; long live0;
	int base = compute ? 3 : 2;

	if (n != base + 3) { printf("bad-case\n"); return; }
	if (compute) pub = drv_unhex(tok[2], &l, 0);
	priv = drv_unhex(tok[base], &l, 0);
	blind = drv_unhex(tok[base + 1], &l, 0);
	ent_reset(); ent_push(tok[base + 1]);
	set_patterns(priv, blind);
	out = outbuf(256);
	fail_at = atoi(tok[base + 2]);
	step_no = 0; evlen = 0; evlog[0] = 0; nids = 0; leak = 0; in_release = 0;
	live0 = live;
	scanning = 1;
	if (compute)
		rc = crypto_dh_compute(pub, priv, out);
	else
		rc = crypto_dh_generate_pub(out, priv);
	scanning = 0;
	fail_at = -1;
	printf("rc=%d ev=%s leak=%d live=%ld\n", rc, evlog, leak, live - live0);
	free(pub); free(priv); free(blind); free(out);
}

static void
wipe_warmup(void)
{
	/* make OpenSSL perform its one-time allocations (error strings, thread state) now */
	uint8_t priv[32], pub[256], key[256];
	memset(priv, 7, 32);
	ent_reset(); ent_push("0909090909090909090909090909090909090909090909090909090909090909");
	(void)crypto_dh_generate_pub(pub, priv);
	ent_reset(); ent_push("0909090909090909090909090909090909090909090909090909090909090909");
	(void)crypto_dh_compute(pub, priv, key);
	(void)ERR_error_string(ERR_get_error(), NULL);
	ERR_clear_error();
}
#endif /* DRV_DH_WRAP */

/* a failed OpenSSL operation unrelated to crypto_dh.c, handled by its return value */
static void
stale_openssl_error(void)
{
	BIGNUM * a = BN_new(), * z = BN_new(), * r = BN_new();
	BN_CTX * c = BN_CTX_new();

	if (a && z && r && c) {
		BN_set_word(a, 7); BN_zero(z);
		(void)BN_div(NULL, r, a, z, c);	/* division by zero: returns 0, queues an error */
	}
	BN_free(a); BN_free(z); BN_free(r); BN_CTX_free(c);
}

int
main(int argc, char ** argv)
{
	char * line; char * tok[8];

	(void)argc;
#ifdef DRV_DH_WRAP
	if (!CRYPTO_set_mem_functions(hook_malloc, hook_realloc, hook_free)) {
		fprintf(stderr, "CRYPTO_set_mem_functions refused\n");
		return (2);
	}
#endif
	warnp_setprogname(argv[0]);
	setvbuf(stdout, NULL, _IOLBF, 0);
#ifdef DRV_DH_WRAP
	wipe_warmup();
#endif
	while ((line = drv_getline()) != NULL) {
		uint32_t h = drv_case_hash(line);
		int n = drv_split(line, tok, 8);
		size_t l;

		ent_reset();
		nest_prepare(h, n < 1 ? 0 : strcmp(tok[0], "generate") == 0 ? 2 :
		    (strcmp(tok[0], "genpub") == 0 || strcmp(tok[0], "compute") == 0) ? 1 : 0);
		/* The process uses OpenSSL for other things too: on about half of the plain cases (chosen
		 * by the case text, so that a replayed case behaves alike) an earlier, unrelated OpenSSL
		 * call has failed and was handled through its return value, which leaves an entry on the
		 * thread's error queue.  The queue is emptied after every case. */
		if (n >= 2 && tok[0][0] != 'x' && tok[0][0] != 'w' && tok[0][0] != 'r' &&
		    ((strlen(tok[n - 1]) + (unsigned char)tok[n - 1][strlen(tok[n - 1]) / 2]) & 1))
			stale_openssl_error();
		if (n == 3 && strcmp(tok[0], "genpub") == 0) {
			uint8_t * priv = drv_unhex(tok[1], &l, 0);
			uint8_t * pub = outbuf(CRYPTO_DH_PUBLEN);
			ent_push(tok[2]);
			int rc = crypto_dh_generate_pub(pub, priv);
			drv_scribble_free(priv, l);	/* arguments are the caller's again */
			nest_report();
			if (rc == 0) {
				printf("ok "); drv_puthex(pub, CRYPTO_DH_PUBLEN); printf("\n");
			} else
				printf("err\n");
			free(pub);
		} else if (n == 4 && strcmp(tok[0], "compute") == 0) {
			size_t lp; uint8_t * pub = drv_unhex(tok[1], &lp, 0);
			uint8_t * priv = drv_unhex(tok[2], &l, 0);
			uint8_t * key = outbuf(CRYPTO_DH_KEYLEN);
			int rc;
			ent_push(tok[3]);
			rc = crypto_dh_compute(pub, priv, key);
			drv_scribble_free(pub, lp); drv_scribble_free(priv, l);
			nest_report();
			if (rc == 0) {
				printf("ok "); drv_puthex(key, CRYPTO_DH_KEYLEN); printf("\n");
			} else
				printf("err\n");
			free(key);
		} else if (n == 3 && strcmp(tok[0], "generate") == 0) {
			uint8_t * pub = outbuf(CRYPTO_DH_PUBLEN);
			uint8_t * priv = outbuf(CRYPTO_DH_PRIVLEN);
			int rc;
			ent_push(tok[1]); ent_push(tok[2]);
			rc = crypto_dh_generate(pub, priv);
			nest_report();
			if (rc == 0) {
				printf("ok "); drv_puthex(pub, CRYPTO_DH_PUBLEN);
				printf(" "); drv_puthex(priv, CRYPTO_DH_PRIVLEN); printf("\n");
			} else
				printf("err\n");
			free(pub); free(priv);
		} else if (n == 2 && strcmp(tok[0], "sanity") == 0) {
			uint8_t * pub = drv_unhex(tok[1], &l, 0);
			printf("rc %d\n", crypto_dh_sanitycheck(pub));
			free(pub);
		} else if (n == 1 && strcmp(tok[0], "rfcprime") == 0) {
			BIGNUM * p = BN_get_rfc3526_prime_2048(NULL);
			uint8_t buf[256];
			memset(buf, 0, 256);
			if (p != NULL && BN_num_bytes(p) <= 256)
				BN_bn2bin(p, &buf[256 - BN_num_bytes(p)]);
			drv_puthex(buf, 256); printf("\n");
			BN_free(p);
#ifdef DRV_DH_WRAP
		} else if (n >= 2 && strcmp(tok[0], "wipe") == 0) {
			wipe_case(n, tok);
		} else if ((n == 3 && strcmp(tok[0], "xgenpub") == 0) ||
		    (n == 4 && strcmp(tok[0], "xcompute") == 0)) {
			/* as genpub / compute, plus the exponents seen by BN_mod_exp */
			int comp = (n == 4);
			uint8_t * pub = comp ? drv_unhex(tok[1], &l, 0) : NULL;
			uint8_t * priv = drv_unhex(tok[comp ? 2 : 1], &l, 0);
			uint8_t * out = outbuf(256);
			int rc;
			ent_push(tok[comp ? 3 : 2]);
			explen = 0; explog[0] = 0; fail_at = -1;
			rc = comp ? crypto_dh_compute(pub, priv, out) : crypto_dh_generate_pub(out, priv);
			if (rc == 0) {
				printf("ok "); drv_puthex(out, 256);
				if (explen) printf(" e%s", explog);
				printf("\n");
			} else
				printf("err\n");
			free(pub); free(priv); free(out);
#endif
		} else
			printf("bad-case\n");
		ERR_clear_error();
	}
	return (0);
}
