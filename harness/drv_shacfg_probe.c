/* Prints which SHA-256 transform the library selects in this build configuration on this CPU.
 * White-box: includes alg/sha256.c to read its static `hwaccel`. */
#include <stdio.h>
#include "sha256.c"

int main(void)
{
	SHA256_CTX c;
	SHA256_Init(&c);
#ifdef HWACCEL
	if (hwaccel == HW_SOFTWARE) { puts("software"); return 0; }
#if defined(CPUSUPPORT_X86_SHANI) && defined(CPUSUPPORT_X86_SSSE3)
	if (hwaccel == HW_X86_SHANI) { puts("shani"); return 0; }
#endif
#if defined(CPUSUPPORT_X86_SSE2)
	if (hwaccel == HW_X86_SSE2) { puts("sse2"); return 0; }
#endif
	puts("other");
#else
	puts("software");
#endif
	return 0;
}
