/* Link-time interposer for the data-structure driver (gcc -Wl,--wrap=malloc,--wrap=realloc,
 * --wrap=free,--wrap=atexit).  While wrap_active is set (the driver sets it around every library
 * call) each request is counted, logged with its size, answered according to the failure mode of
 * the case, and successful blocks are entered into a table of live blocks.  A successful realloc
 * always moves the block (so a stale pointer is an ASan error) and new bytes are filled with junk.
 * Requests larger than WRAP_CAP are always refused ("the machine has no more memory"). */
#include <errno.h>
#include <stdint.h>
#include <stdio.h>
#include <stdlib.h>
#include <string.h>

void * __real_malloc(size_t);
void * __real_realloc(void *, size_t);
void __real_free(void *);

#define WRAP_CAP ((size_t)1 << 24)

int wrap_active = 0;
static int wrap_mode = 0;		/* 0 none, 1 only the k-th, 2 from the k-th on */
static uint64_t wrap_k = 0;
static uint64_t wrap_count = 0;		/* library requests so far in this case */
static uint64_t wrap_ordinal = 0;	/* successful library allocations so far */
uint64_t wrap_refusals = 0;		/* refused requests so far */

struct blk { void * p; size_t sz; uint64_t ord; };
static struct blk * tab = NULL;
static size_t ntab = 0, captab = 0;

static char * logbuf = NULL;
static size_t loglen = 0, logcap = 0;

#define WRAP_MAXEXIT 8
void (* wrap_exit_fn[WRAP_MAXEXIT])(void);
int wrap_exit_n = 0;

static void
die(const char * msg)
{
	fprintf(stderr, "wrap_alloc_ds: %s\n", msg);
	abort();
}

static void
logf1(const char * s)
{
	size_t n = strlen(s);
	if (loglen + n + 2 > logcap) {
		logcap = (loglen + n + 2) * 2;
		if ((logbuf = __real_realloc(logbuf, logcap)) == NULL)
			die("out of memory (log)");
	}
	if (loglen)
		logbuf[loglen++] = ',';
	memcpy(logbuf + loglen, s, n + 1);
	loglen += n;
}

/* Returns the log of the events since the last call ("-" if none); valid until the next event. */
const char *
wrap_take_log(void)
{
	if (loglen == 0)
		return ("-");
	loglen = 0;
	return (logbuf);
}

static struct blk *
lookup(void * p)
{
	size_t i;
	for (i = ntab; i > 0; i--)
		if (tab[i - 1].p == p)
			return (&tab[i - 1]);
	return (NULL);
}

static void
enter(void * p, size_t sz)
{
	if (ntab == captab) {
		captab = captab ? captab * 2 : 64;
		if ((tab = __real_realloc(tab, captab * sizeof(struct blk))) == NULL)
			die("out of memory (table)");
	}
	tab[ntab].p = p;
	tab[ntab].sz = sz;
	tab[ntab].ord = ++wrap_ordinal;
	ntab++;
}

static void
drop(struct blk * b)
{
	*b = tab[--ntab];
}

static int
refuse(size_t sz)
{
	wrap_count++;
	if (sz > WRAP_CAP)
		return (1);
	if (wrap_mode == 1 && wrap_count == wrap_k)
		return (1);
	if (wrap_mode == 2 && wrap_count >= wrap_k)
		return (1);
	return (0);
}

void
wrap_begin_case(int mode, uint64_t k)
{
	wrap_mode = mode;
	wrap_k = k;
	wrap_count = 0;
	wrap_ordinal = 0;
	wrap_refusals = 0;
	ntab = 0;
	loglen = 0;
	wrap_exit_n = 0;
}

size_t wrap_live(void) { return (ntab); }

/* size of the live library block starting at p; 0 if p is NULL; (size_t)-1 if unknown */
size_t
wrap_block_size(void * p)
{
	struct blk * b;
	if (p == NULL)
		return (0);
	if ((b = lookup(p)) == NULL)
		return ((size_t)(-1));
	return (b->sz);
}

uint64_t
wrap_block_ordinal(void * p)
{
	struct blk * b;
	if (p == NULL)
		return (0);
	if ((b = lookup(p)) == NULL)
		return ((uint64_t)(-1));
	return (b->ord);
}

void *
__wrap_malloc(size_t sz)
{
	char s[64];
	void * p;

	if (!wrap_active)
		return (__real_malloc(sz));
	if (refuse(sz)) {
		snprintf(s, sizeof(s), "m%zx-", sz);
		logf1(s);
		wrap_refusals++;
		errno = ENOMEM;
		return (NULL);
	}
	snprintf(s, sizeof(s), "m%zx+", sz);
	logf1(s);
	if ((p = __real_malloc(sz)) == NULL)
		die("real malloc failed");
	memset(p, 0xd5, sz);
	enter(p, sz);
	return (p);
}

void *
__wrap_realloc(void * old, size_t sz)
{
	char s[96];
	struct blk * b = NULL;
	size_t osz = 0;
	void * p;

	if (!wrap_active)
		return (__real_realloc(old, sz));
	if (old != NULL) {
		if ((b = lookup(old)) == NULL)
			die("realloc of a block that is not a live library block");
		osz = b->sz;
	}
	if (refuse(sz)) {
		snprintf(s, sizeof(s), "r%zx>%zx-", osz, sz);
		logf1(s);
		wrap_refusals++;
		errno = ENOMEM;
		return (NULL);
	}
	snprintf(s, sizeof(s), "r%zx>%zx+", osz, sz);
	logf1(s);
	if ((p = __real_malloc(sz)) == NULL)
		die("real malloc failed");
	memset(p, 0xd5, sz);
	if (old != NULL) {
		memcpy(p, old, osz < sz ? osz : sz);
		drop(b);
		__real_free(old);
	}
	enter(p, sz);
	return (p);
}

void
__wrap_free(void * p)
{
	char s[64];
	struct blk * b;

	if (p == NULL)
		return;
	if ((b = lookup(p)) != NULL) {
		if (wrap_active) {
			snprintf(s, sizeof(s), "f%zx", b->sz);
			logf1(s);
		}
		drop(b);
	} else if (wrap_active)
		logf1("f?");		/* library frees a block it did not allocate */
	__real_free(p);
}

int
__wrap_atexit(void (* fn)(void))
{
	if (wrap_exit_n >= WRAP_MAXEXIT)
		die("too many atexit registrations");
	wrap_exit_fn[wrap_exit_n++] = fn;
	return (0);
}
